"""C01 -- domain text is parsed faithfully or rejected, never silently altered."""
from __future__ import annotations

import ast
import itertools
from typing import Dict, List, Optional, Set, Tuple

from .. import cfg as C
from .. import dispatch as D
from .. import lib as L
from ..core import AnalysisError, FuncInfo, Repo, parent_map, unparse
from ..prov import callee_name
from ..report import Finding, RuleResult
from . import c12

EXPLANATION = (
    "C01.nodrop: for every node-handling loop / function of the precondition and effect parsers (a handler with >=2 branches "
    "testing node[0]) all acyclic paths through the handler are enumerated on the CFG; on each path the node must flow into a "
    "non-logging call or a store, or the path must end in raise. C01.headstrip: wherever X[1:] of a parsed list is handed on, either "
    "the head X[0] is pinned by a dominating test (finite valuation: with every head test false the site is unreachable) or the head "
    "is used as data. C01.polarity: finite valuation over (head is 'not', inner head is '='): under 'not' every literal sink receives "
    "the inner node with is_positive=False and '=' goes to the inequality set, otherwise is_positive is true and '=' goes to the "
    "equality set / a numeric tree. C01.sections: parse_domain has an arm per PDDL 2.1 level-2 section that stores into the matching "
    "Domain field; parse_action has arms for parameters / precondition / effect. C01.arity: fixed-position operand reads in "
    "construct_expression_tree are dominated by a length test that raises. C01.tables: accepted operators are keys of the "
    "evaluator tables. C01.dupkeys: a dict keyed directly by the tokens of an argument list collapses repeated arguments. "
    "C01.order: argument tokens reach signatures unsorted. C01.leftover: the dash-grouped typed-list readers flush (or reject) the "
    "trailing untyped group; C01.trailing: with a NON-EMPTY trailing group every way from the end of the walk to the exit stores its names "
    "(valuation of the emptiness tests of the group) or raises. "
    "C01.forms.*: the handlers (PreconditionsParser.parse, EffectsParser.parse with the public methods it calls analysed in place, "
    "DomainParser.parse_preconditions, construct_expression_tree, parse_untyped_predicate, DomainParser.parse_domain) are judged per INPUT CLASS "
    "(tables *_SCENARIOS: token at some positions, lengths, list / flat flags, head declared or not) by guard valuation -- nothing is executed: "
    "every test that compares a position of the node -- found by provenance, e.g. ('param:ast','elem','slice:1:','item:0') is position 1 -- with "
    "constants gets the truth value it has for the class (L.Guards), the rest stays open; reachability, must-pass and provenance under that "
    "valuation decide the clauses.  A supported form must be able to end its turn without raise, must not reach the raise of the unknown-node arm, reads no position beyond "
    "the given lengths, and on EVERY accepting path passes a sink (add / store into the object under construction, or the returned value) whose "
    "value -- traced under the valuation -- carries the parts of the node at the named constructor / callee parameters (printed forms do not count), "
    "built in this turn; no other part of the object is written; calls listed as sites (recursive parse with the nested root and node[1:]) are "
    "passed; forms outside the fragment (undeclared head, n-ary arithmetic, forall with two variables / a non-connective body, when with 2 or 4 "
    "parts) end in raise on every path.  C01.walk: no turn of the node loops ends the loop, and the loop iterates the list handed in or what "
    "follows its checked head.  C01.defaults: the fields of the fresh Domain that parse_domain reads are set by Domain.__init__ on every path."
)
UNDECIDED = ("that the stored formula equals the written one for every program of the grammar (the scenario tables are finite: one abstract node "
             "per supported form and per rejected neighbour); what the callees named in the flows do with their arguments beyond their own "
             "clauses; signature / type fidelity of declarations beyond the clauses above; sections outside PDDL 2.1 level 2")

PARSER_MODS = ("lisp_parsers.preconditions_parser", "lisp_parsers.effects_parser")
NODROP_EXCLUDED = {
    "DomainParser.parse_domain": "section level: sections outside PDDL 2.1 level 2 are outside the quantifier; covered by C01.sections",
    "ProblemParser.parse_problem": "section level; covered by C05.sections",
    "TrajectoryParser.deduce_problem_objects": "pre-pass over the list that parse_state parses (and rejects) next",
}


def _short(f: FuncInfo) -> str:
    return f.qn.split("::", 1)[1]


def rule_nodrop(repo: Repo, rid: str, modules, floor: int, only: Optional[Set[str]] = None, anchors: Optional[List[str]] = None) -> RuleResult:
    """units = L.roots(modules): public functions with their private helpers in place.  `anchors`: public functions that must each
    contribute a handler (a rule that finds no handler at all would pass vacuously)."""
    r = RuleResult(rid, "every parsed node is consumed (flows into a call / store) or rejected (raise) on every path of its handler",
                   "a construct the library cannot represent raises an error; it is never dropped")
    seen_anchor: Set[str] = set()
    for f in L.roots(repo, modules):
        if _short(f) in NODROP_EXCLUDED:
            continue
        if only is not None and _short(f) not in only:
            continue
        handlers: List[Tuple[str, List[ast.stmt], str, ast.AST]] = []
        loops = D.node_loops(f)
        for loop, var in loops:
            handlers.append((f"loop over {unparse(loop.iter, 40)}", loop.body, var, loop))
        if not loops:
            for pn in D.node_functions(f, min_tests=1):
                handlers.append((f"parameter {pn}", f.node.body, pn, f.node))
        loop_nodes = [lp for lp, _v in loops]
        for label, stmts, name in D.inlined_handlers(f):
            # a helper body that lies inside a handler loop is covered by the paths of that loop
            if any(any(st is x for x in ast.walk(lp)) for lp in loop_nodes for st in stmts[:1]):
                continue
            handlers.append((f"helper {label}", stmts, name, stmts[0] if stmts else f.node))
        for label, body, var, anchor in handlers:
            r.site(f"{f.qn} [{label}]")
            seen_anchor.add(_short(f))
            n, bad = D.silent_drop_paths(body, {var})
            if not bad:
                r.ok({"handler": f"{f.qn} [{label}]", "paths": n, "silent_drop_paths": 0})
                continue
            kinds = sorted({b.end_kind for b in bad})
            b0 = bad[0]
            r.fail(Finding(rid, f, "drop:node", f"{len(bad)} of {n} paths through the handler of `{unparse(ast.Name(id=var, ctx=ast.Load()))}` neither use nor reject the node "
                           f"(path ends with {kinds}; decisions: {' ; '.join(b0.decisions[-3:])})", node=b0.end_stmt or anchor),
                   {"handler": f"{f.qn} [{label}]", "paths": n, "silent_drop_paths": len(bad)})
    missing = [a for a in (anchors or []) if a not in seen_anchor]
    if missing:
        raise AnalysisError(f"rule {rid}: no node handler (loop / function testing node[0]) found in {missing} -- the anchors this rule needs have vanished")
    r.require_sites(min(floor, len(anchors)) if anchors else floor)
    return r


# --------------------------------------------------------------------------- head stripping
def _strip_sites(f: FuncInfo):
    """(subscript node X[1:], X source text) excluding uses directly inside len(...)"""
    pm = parent_map(f.node)
    out = []
    for n in ast.walk(f.node):
        if isinstance(n, ast.Subscript) and isinstance(n.slice, ast.Slice) and n.slice.upper is None and n.slice.step is None \
                and isinstance(n.slice.lower, ast.Constant) and n.slice.lower.value == 1:
            par = pm.get(n)
            if isinstance(par, ast.Call) and isinstance(par.func, ast.Name) and par.func.id == "len":
                continue
            if isinstance(par, (ast.Assign, ast.AnnAssign)) and par.value is n:
                tgt = par.targets[0] if isinstance(par, ast.Assign) and len(par.targets) == 1 else getattr(par, "target", None)
                if isinstance(tgt, ast.Name):
                    # the stripped list is only named here; it is passed on where the name is used
                    g = C.cfg_of(f.node)
                    rd = L.rd_of(f)
                    d = g.node_of(par)
                    uses = []
                    for u in ast.walk(f.node):
                        if isinstance(u, ast.Name) and u.id == tgt.id and isinstance(u.ctx, ast.Load):
                            un = g.node_containing(u)
                            pu = pm.get(u)
                            if isinstance(pu, ast.Call) and isinstance(pu.func, ast.Name) and pu.func.id == "len":
                                continue
                            if un is not None and d in rd.defs_reaching(un, u.id):
                                uses.append(u)
                    for u in uses:
                        out.append((u, ast.unparse(n.value), n, d))
                    continue
            out.append((n, ast.unparse(n.value), n, None))
    return out


def _copy_classes(f: FuncInfo) -> Dict[str, Set[str]]:
    """names connected by plain copies `a = b` (parameter bindings of helpers analysed in place, renamed locals)"""
    cls: Dict[str, Set[str]] = {}
    for name, v, _st in C.simple_bindings(f.node):
        if isinstance(v, ast.Name):
            a, b = cls.setdefault(name, {name}), cls.setdefault(v.id, {v.id})
            u = a | b
            for x in u:
                cls[x] = u
    return cls


def _same_list(classes: Dict[str, Set[str]], src: str) -> Set[str]:
    """source texts that denote the same parsed list as `src`"""
    if src in classes:
        return set(classes[src])
    return {src}


def _head_predicates(f: FuncInfo, xsrc: str):
    classes = _copy_classes(f)
    same = _same_list(classes, xsrc)
    aliases: Set[str] = set()
    for x in same:
        aliases |= D.head_aliases(f.node, x)
    # copies of the aliases
    for a in list(aliases):
        aliases |= classes.get(a, set())

    def is_head(e):
        if isinstance(e, ast.Name) and e.id in aliases:
            return True
        return isinstance(e, ast.Subscript) and isinstance(e.slice, ast.Constant) and e.slice.value == 0 and ast.unparse(e.value) in same

    return is_head, same, aliases


def _head_atom_matcher(repo: Repo, f: FuncInfo, xsrc: str):
    """atoms for tests on <X>[0] (or a local alias of it); returns (matcher, {atom: kind}) kind = 'eq' | 'in'"""
    kinds: Dict[str, str] = {}
    is_head, _same, _al = _head_predicates(f, xsrc)

    def m(e):
        if isinstance(e, ast.Compare) and len(e.ops) == 1:
            l, rr = e.left, e.comparators[0]
            op = e.ops[0]
            if is_head(l) or is_head(rr):
                other = rr if is_head(l) else l
                key = ast.unparse(other)
                if isinstance(op, (ast.Eq, ast.NotEq)):
                    kinds["eq:" + key] = "eq"
                    return ("" if isinstance(op, ast.Eq) else "!") + "eq:" + key
                if isinstance(op, (ast.In, ast.NotIn)) and is_head(l):
                    kinds["in:" + key] = "in"
                    return ("" if isinstance(op, ast.In) else "!") + "in:" + key
        return None

    return m, kinds


def _head_used_as_data(f: FuncInfo, xsrc: str) -> bool:
    """X[0] (or a local alias of it) is passed to a non-logging call, stored, used as a lookup key or returned"""
    is_head, _same, _al = _head_predicates(f, xsrc)
    pm = parent_map(f.node)
    for n in ast.walk(f.node):
        if is_head(n) and not (isinstance(n, ast.Name) and isinstance(n.ctx, ast.Store)):
            par = pm.get(n)
            while (isinstance(par, ast.Attribute) and par.value is n) or (isinstance(par, ast.Call) and par.func is n):
                n, par = par, pm.get(par)
            if isinstance(par, ast.Call) and not L.is_logging_call(par) and (n in par.args or any(k.value is n for k in par.keywords)):
                if not (isinstance(par.func, ast.Name) and par.func.id in D.NEUTRAL_CALLS):
                    return True
            if isinstance(par, ast.keyword):
                gp = pm.get(par)
                if isinstance(gp, ast.Call) and not L.is_logging_call(gp):
                    return True
            if isinstance(par, ast.Subscript) and par.slice is n:
                return True  # lookup key
            if isinstance(par, ast.Assign) and par.value is n and any(isinstance(t, (ast.Attribute, ast.Subscript)) for t in par.targets):
                return True
            if isinstance(par, (ast.Return, ast.Tuple, ast.List)):
                return True
    return False


def rule_headstrip(repo: Repo, rid: str, modules, floor: int) -> RuleResult:
    r = RuleResult(rid, "wherever X[1:] of a parsed list is passed on, the head X[0] is pinned by a dominating test or used as data",
                   "a formula is never re-shaped: a stripped head that was not checked changes what the text denotes")
    for f in L.roots(repo, modules):
        g = C.cfg_of(f.node)
        for node, xsrc, strip, defnode in _strip_sites(f):
            matcher, kinds = _head_atom_matcher(repo, f, xsrc)
            G = L.Guards(f, matcher)
            site_node = g.node_containing(node)
            if site_node is None:
                continue
            r.site(L.site(f, strip, "head strip"))
            atoms = sorted(G.atoms_seen)
            # nodes that re-bind X to a literal list with a constant head (e.g. X = ["and", X])
            rebinds = []
            if isinstance(strip.value, ast.Name):
                for n in g.nodes():
                    st = g.stmt[n]
                    if isinstance(st, ast.Assign) and any(isinstance(t, ast.Name) and t.id == strip.value.id for t in st.targets) \
                            and isinstance(st.value, ast.List) and st.value.elts and isinstance(st.value.elts[0], ast.Constant):
                        rebinds.append(n)
            v0 = {a: False for a in atoms}

            def reaches(val, avoid=()):
                seen = G.reach(val, avoid)
                if defnode is not None and defnode not in seen:
                    return False        # the definition `name = X[1:]` is not executed under this valuation
                return G.reaches_expr(val, node, seen=seen)

            pinned = not reaches(v0, rebinds)
            carried = _head_used_as_data(f, xsrc)
            if pinned:
                # which positive tests admit the site?  membership in a multi-valued table needs the head carried as data
                admits = []
                for a in atoms:
                    va = dict(v0)
                    va[a] = True
                    if reaches(va):
                        admits.append(a)
                multi = []
                for a in admits:
                    if kinds.get(a) == "in":
                        ok, val = repo.const_value(f.mod.name, a[3:]) if a[3:].isidentifier() else (False, None)
                        if not ok or (isinstance(val, (list, tuple)) and len(val) > 1):
                            multi.append(a)
                if multi and not carried:
                    r.fail(Finding(rid, f, "head-not-carried", f"{unparse(strip)} is passed on under the multi-valued test {multi} but "
                                   f"{unparse(strip.value)}[0] is not kept as data: the operator is lost", node=node))
                else:
                    r.ok({"site": L.site(f, node), "pinned_by": admits or (["rebinding to a constant head"] if rebinds else ["negative test + raise"]),
                          "carried": carried})
            elif carried:
                r.ok({"site": L.site(f, node), "pinned_by": [], "carried": True})
            else:
                r.fail(Finding(rid, f, "head-stripped", f"{unparse(strip)} is passed on although {unparse(strip.value)}[0] is neither pinned by a dominating test "
                               f"(with all head tests {atoms} false the site is still reachable) nor used as data: "
                               f"a body such as (p ?x) or (not (p ?x)) silently loses its head", node=node))
    r.require_sites(floor)
    return r


# --------------------------------------------------------------------------- polarity
def rule_polarity(repo: Repo, rid: str = "C01.polarity") -> RuleResult:
    r = RuleResult(rid, "under (not X) literals are built from the inner node with is_positive=False and '=' is an inequality; otherwise positive / equality",
                   "a literal is never negated or un-negated silently")
    pup = repo.func("lisp_parsers.parsing_utils::parse_untyped_predicate")
    ok_not, not_value = repo.const_value(repo.module("lisp_parsers.parsing_utils").name, "NOT_OPERATOR")
    not_value = not_value if ok_not else "not"

    kinds_seen: Set[Tuple[str, str]] = set()

    def is_not_const(e) -> bool:
        return (isinstance(e, ast.Name) and e.id == "NOT_OPERATOR") or (isinstance(e, ast.Constant) and e.value == not_value)

    if True:
        for f in L.roots(repo, PARSER_MODS):
            calls = [c for c in L.calls_in(f.node) if callee_name(c) == "parse_untyped_predicate"]
            adds = [c for c in L.calls_in(f.node) if isinstance(c.func, ast.Attribute) and c.func.attr == "add" and isinstance(c.func.value, ast.Attribute)
                    and c.func.value.attr in ("equality_preconditions", "inequality_preconditions")]
            if not calls and not adds:
                continue
            # heads: X[0] or a local alias of it (head = X[0])
            head_alias: Set[str] = {name for name, v, _st in C.simple_bindings(f.node) if L.subscript0_of(v) is not None}

            def is_head(e) -> bool:
                return L.subscript0_of(e) is not None or (isinstance(e, ast.Name) and e.id in head_alias)

            nvars = set()
            for n in ast.walk(f.node):
                if isinstance(n, ast.Compare) and len(n.ops) == 1 and isinstance(n.ops[0], (ast.Eq, ast.NotEq)):
                    l, rr = n.left, n.comparators[0]
                    if (is_head(l) and is_not_const(rr)) or (is_head(rr) and is_not_const(l)):
                        nvars.add(id(n))
            p = L.prov(repo, f)
            g = C.cfg_of(f.node)

            def matcher(e):
                if id(e) in nvars:
                    return "not" if isinstance(e.ops[0], ast.Eq) else "!not"
                # `head in <declared predicates>`: the head is a predicate name, hence not the (not ...) keyword
                if isinstance(e, ast.Compare) and len(e.ops) == 1 and isinstance(e.ops[0], (ast.In, ast.NotIn)) and is_head(e.left):
                    try:
                        tr_ = p.trace(e.comparators[0])
                    except KeyError:
                        return None
                    if tr_ and all(x[0].startswith("param:") and "predicates" in x[0] for x in tr_):
                        return "declared" if isinstance(e.ops[0], ast.In) else "!declared"
                return None

            G = L.Guards(f, matcher)
            r_not = G.reach({"not": True, "declared": False}) if nvars else set()
            r_pos = G.reach({"not": False}) if nvars else set(g.nodes())
            for c in calls:
                cn = g.node_containing(c)
                ispos = L.arg_of(c, pup, "is_positive")
                first = L.arg_of(c, pup, "untyped_predicate")
                r.site(L.site(f, c, "literal sink"))
                if not nvars:
                    kinds_seen.add(("literal", "pos"))
                    r.ok({"function": f.qn, "call": unparse(c, 80), "no_not_test_in_scope": True})
                    continue
                # the call is judged under each value of the (not ...) test it can be reached with: polarity argument and node argument
                # are evaluated under that valuation (constants, conditional expressions, locals such as `is_positive = head != 'not'`)
                verdicts = []
                fixed = ispos is None or isinstance(ispos, ast.Constant)
                if not fixed:
                    try:
                        tp = p.trace(ispos)     # a helper parameter bound to a constant at this call site
                        fixed = len(tp) == 1 and all(len(x) == 1 and x[0] in ("const:True", "const:False") for x in tp)
                    except KeyError:
                        pass
                for is_not, seen_ in ((True, r_not), (False, r_pos)):
                    if cn not in seen_:
                        continue
                    if fixed and is_not and cn in r_pos:
                        continue    # an arm with a fixed polarity that is also taken when the head is not 'not' (it precedes the test): a positive arm
                    valn = {"not": is_not, "declared": False} if is_not else {"not": False}
                    if not is_not and "declared" in G.atoms_seen:
                        # outside (not ...) a literal sink is reached for a declared predicate
                        valn = {"not": False, "declared": True}
                        seen_ = G.reach(valn)
                        if cn not in seen_:
                            continue
                    pv = G.value(valn, ispos, seen_) if ispos is not None else True
                    ftr = p.trace(first, under=G.under(valn, seen_)) if first is not None else set()
                    inner = bool(ftr) and all(x[-1] in ("item:1", "unpack:1") or not x[0].startswith("param:") for x in ftr) \
                        and any(x[-1] in ("item:1", "unpack:1") for x in ftr)
                    kinds_seen.add(("literal", "not" if is_not else "pos"))
                    verdicts.append((is_not, pv, inner))
                sample = {"function": f.qn, "call": unparse(c, 80), "verdicts": [(a_, str(b_) if not isinstance(b_, bool) else b_, c_) for a_, b_, c_ in verdicts]}
                bad = None
                for is_not, pv, inner in verdicts:
                    if not isinstance(pv, bool):
                        bad = ("unguarded:literal", f"{unparse(c, 70)}: the polarity argument is not decided by the (not ...) test")
                    elif is_not and not (pv is False and inner):
                        bad = ("not-arm:literal", f"under (not ...) the literal is built with is_positive={pv} from {'the inner node' if inner else 'the outer node'}: {unparse(c, 70)}")
                    elif (not is_not) and not (pv is True and not inner):
                        bad = ("positive-arm:literal", f"outside (not ...) the literal is built with is_positive={pv}{' from the inner node' if inner else ''}: {unparse(c, 70)}")
                    if bad:
                        break
                if bad:
                    r.fail(Finding(rid, f, bad[0], bad[1], node=c), sample)
                else:
                    r.ok(sample)
            for c in adds:
                cn = g.node_containing(c)
                which = c.func.value.attr
                under_not = cn in r_not and cn not in r_pos
                under_pos = cn in r_pos and cn not in r_not
                r.site(L.site(f, c, "(in)equality sink"))
                kinds_seen.add(("pair", which))
                # elements: (X[1], X[2]) of the node whose head is '='
                elts = c.args[0].elts if c.args and isinstance(c.args[0], ast.Tuple) else []
                idx = []
                for e in elts:
                    tr = p.trace(e)
                    idx.append(sorted({x[-1].replace("unpack:", "item:") for x in tr}))     # a, b, c = node  <->  node[1], node[2]
                okpair = idx == [["item:1"], ["item:2"]]
                sample = {"function": f.qn, "sink": which, "under_not": under_not, "pair_from": idx}
                if ((which == "inequality_preconditions" and under_not) or (which == "equality_preconditions" and under_pos)) and okpair:
                    r.ok(sample)
                else:
                    r.fail(Finding(rid, f, f"equality-polarity:{which}", f"{which}.add is reached {'under' if under_not else 'outside'} (not ...) "
                                   f"with operands {idx}", node=c), sample)
    if not any(k == "literal" for k, _ in kinds_seen) or not any(k == "pair" for k, _ in kinds_seen):
        raise AnalysisError(f"rule {rid}: literal sinks / (in)equality sinks not found in the precondition / effect parsers (seen {sorted(kinds_seen)}) "
                            f"-- the anchors this rule needs have vanished")
    r.require_sites(4)
    return r


# --------------------------------------------------------------------------- sections
class ConstDispatch:
    """tests of the head of a loop element (X[0], a local alias `head = X[0]`, or the element itself for a token loop) against string
    constants, decided together for a given head value (constant valuation): whatever shape the dispatch has (if/elif, `continue`
    chains, tuple membership, module constants), the statements executed for head c are those reachable when every test has the
    value it has for c."""

    def __init__(self, repo: Repo, f: FuncInfo, loop: ast.For):
        self.repo, self.f, self.loop = repo, f, loop
        var = loop.target.id if isinstance(loop.target, ast.Name) else None
        classes = _copy_classes(f)
        same = _same_list(classes, var) if var else set()
        aliases: Set[str] = set()
        for x in same:
            aliases |= D.head_aliases(loop, x)
        for a in list(aliases):
            aliases |= classes.get(a, set())
        self.tests: Dict[int, Tuple[str, List[object]]] = {}
        # ... and by provenance: whatever the head is called or unpacked into (`label, *content = section`), it is position 0 of the element
        p = L.prov(repo, f)
        try:
            elem_paths = {x + ("elem",) for x in p.trace(loop.iter)}
        except (KeyError, RecursionError):
            elem_paths = set()
        head_paths = {x + (s,) for x in elem_paths for s in ("item:0", "unpack:0")}

        def is_head(e):
            if isinstance(e, ast.Name) and (e.id in aliases or e.id in same):
                return True
            if isinstance(e, ast.Subscript) and isinstance(e.slice, ast.Constant) and e.slice.value == 0 and ast.unparse(e.value) in same:
                return True
            if isinstance(e, ast.Name) and isinstance(e.ctx, ast.Load) and head_paths:
                try:
                    tr = p.trace(e)
                except (KeyError, RecursionError):
                    return False
                return bool(tr) and tr <= head_paths
            return False

        def consts_of(e):
            if isinstance(e, ast.Constant) and isinstance(e.value, str):
                return [e.value]
            if isinstance(e, (ast.Tuple, ast.List, ast.Set)):
                out = []
                for x in e.elts:
                    c = consts_of(x)
                    if c is None:
                        return None
                    out += c
                return out
            if isinstance(e, ast.Name):
                ok, v = repo.const_value(f.mod.name, e.id)
                if ok and isinstance(v, str):
                    return [v]
                if ok and isinstance(v, (list, tuple)) and all(isinstance(x, str) for x in v):
                    return list(v)
            return None

        for n in ast.walk(loop):
            if isinstance(n, ast.Compare) and len(n.ops) == 1:
                l, rr, op = n.left, n.comparators[0], n.ops[0]
                if isinstance(op, (ast.Eq, ast.NotEq)):
                    side = rr if is_head(l) else (l if is_head(rr) else None)
                    cs = consts_of(side) if side is not None else None
                    if cs is not None and len(cs) == 1 and isinstance(side, (ast.Constant, ast.Name)):
                        self.tests[id(n)] = ("eq" if isinstance(op, ast.Eq) else "ne", cs)
                elif isinstance(op, (ast.In, ast.NotIn)) and is_head(l):
                    cs = consts_of(rr)
                    if cs is not None:
                        self.tests[id(n)] = ("in" if isinstance(op, ast.In) else "notin", cs)
        self.G = L.Guards(f, lambda e: f"k{id(e)}" if id(e) in self.tests else None)
        self.g = self.G.g
        self.inside = set()
        for x in ast.walk(loop):
            if isinstance(x, ast.stmt) and x is not loop:
                n = self.g.node_of(x)
                if n is not None:
                    self.inside.add(n)

    def constants(self) -> List[str]:
        out: List[str] = []
        for _k, cs in self.tests.values():
            for c in cs:
                if c not in out:
                    out.append(c)
        return out

    def valuation(self, c: str) -> Dict[str, bool]:
        v = {}
        for i, (kind, cs) in self.tests.items():
            hit = c in cs
            v[f"k{i}"] = hit if kind in ("eq", "in") else (not hit)
        return v

    def mentioned(self, c: str) -> bool:
        return any(c in cs for _k, cs in self.tests.values())

    def statements(self, c: str) -> List[ast.stmt]:
        """simple statements (and headers of compound ones, wrapped) executed in the loop body when the head is c"""
        seen = self.G.reach(self.valuation(c)) & self.inside
        out: List[ast.stmt] = []
        for n in sorted(seen):
            st = self.g.stmt[n]
            if isinstance(st, (ast.If, ast.For, ast.While, ast.With, ast.Try)):
                h = C.header(st)
                if h is not None:
                    out.append(ast.copy_location(ast.Expr(value=h), st))
            elif isinstance(st, ast.stmt):
                out.append(st)
        return out


def _arms_by_constant(f: FuncInfo, var_src: str, repo: Optional[Repo] = None, loop: Optional[ast.For] = None) -> Dict[str, List[ast.stmt]]:
    """{head constant: statements executed for it} of the dispatch on the elements of `loop`"""
    if repo is None or loop is None:
        raise AnalysisError("_arms_by_constant needs the repository and the loop")
    d = ConstDispatch(repo, f, loop)
    return {c: d.statements(c) for c in d.constants()}


def rule_sections(repo: Repo, rid: str = "C01.sections") -> RuleResult:
    r = RuleResult(rid, "parse_domain has an arm for every PDDL 2.1 level-2 section storing into the matching Domain field; parse_action for every action part",
                   "the parsed domain declares exactly the source's types, constants, predicates, functions and action schemas")
    f = L.fn(repo, "DomainParser.parse_domain")
    want = {"domain": "name", ":requirements": "requirements", ":types": "types", ":constants": "constants",
            ":predicates": "predicates", ":functions": "functions", ":action": "actions"}
    loops = [n for n in ast.walk(f.node) if isinstance(n, ast.For) and isinstance(n.target, ast.Name)]
    if not loops:
        raise AnalysisError("parse_domain: section loop not found")
    loops = [lp for lp in loops if ConstDispatch(repo, f, lp).mentioned(":action")] or loops
    var = loops[0].target.id
    arms = _arms_by_constant(f, var, repo, loops[0])
    p = L.prov(repo, f)
    parser_of = {":types": "parse_types", ":constants": "parse_constants", ":predicates": "parse_predicates", ":functions": "parse_functions",
                 ":action": "parse_action"}
    for head, fld in want.items():
        r.site(f"{f.qn} [{head}]")
        body = arms.get(head)
        if body is None:
            r.fail(Finding(rid, f, f"missing-arm:{head}", f"parse_domain has no arm for the section {head!r}: it is skipped silently"))
            continue
        stored = False
        via = None
        for s in C.stmts_in(body):
            if isinstance(s, ast.Assign):
                for t in s.targets:
                    base = t.value if isinstance(t, ast.Subscript) else t
                    if isinstance(base, ast.Attribute) and base.attr == fld:
                        tr = p.trace(s.value)
                        from_section = any(x[0] == "self" and "call:parse" in x and "elem" in x for x in tr) and any("elem" in x for x in tr)
                        if any("elem" in x for x in tr):
                            stored = True
                            via = sorted({st.split(":")[-1] for x in tr for st in x if st.startswith(("call:parse", "arg")) and "parse" in st})
        need = parser_of.get(head)
        if stored and (need is None or need in (via or [])):
            r.ok({"section": head, "stored_into": f"domain.{fld}", "via": via})
        else:
            r.fail(Finding(rid, f, f"arm-store:{head}", f"the arm for {head!r} does not store the parsed section into domain.{fld}"
                           f"{' via ' + need if need else ''}"))
    # the source of the loop: everything after 'define'
    r.site(f.qn + " [loop source]")
    tr = p.trace(loops[0].iter)
    if all(any(s == "call:parse" for s in x) and x[-1] in ("slice:1:", "call:parse") for x in tr):
        r.ok({"iterates": unparse(loops[0].iter)})
    else:
        r.fail(Finding(rid, f, "loop-source", f"the section loop iterates {unparse(loops[0].iter)}"))
    # parse_action parts
    a = L.fn(repo, "DomainParser.parse_action")
    aloops = [n for n in ast.walk(a.node) if isinstance(n, ast.For) and isinstance(n.target, ast.Name)]
    aloops = [lp for lp in aloops if ConstDispatch(repo, a, lp).mentioned(":parameters")]
    if not aloops:
        raise AnalysisError("parse_action: part loop not found")
    avar = aloops[0].target.id
    aarms = _arms_by_constant(a, avar, repo, aloops[0])
    wanted = {":parameters": "parse_signature", ":precondition": "parse_preconditions", ":effect": "parse_effects"}
    for part, callee in wanted.items():
        r.site(f"{a.qn} [{part}]")
        body = aarms.get(part)
        if body is None:
            r.fail(Finding(rid, a, f"missing-arm:{part}", f"parse_action has no arm for {part}"))
            continue
        names = [callee_name(c) for s in body for c in L.calls_in(s)]
        if callee in names and "next" in names:
            r.ok({"part": part, "handled_by": callee})
        else:
            r.fail(Finding(rid, a, f"arm-call:{part}", f"the arm for {part} does not hand the following item to {callee}"))
    r.require_sites(10)
    return r


# --------------------------------------------------------------------------- arity
def rule_arity(repo: Repo, rid: str = "C01.arity") -> RuleResult:
    r = RuleResult(rid, "operands read by fixed position are protected by a length test that raises",
                   "n-ary arithmetic is rejected, not truncated")
    f = L.fn(repo, "models.numerical_expression::construct_expression_tree")
    g = C.cfg_of(f.node)
    dom = C.dominators(g)
    classes = _copy_classes(f)
    same = _same_list(classes, f.params[0])
    reads = [n for n in ast.walk(f.node) if isinstance(n, ast.Subscript) and isinstance(n.value, ast.Name) and n.value.id in same
             and isinstance(n.slice, ast.Constant) and isinstance(n.slice.value, int) and n.slice.value >= 2 and isinstance(n.ctx, ast.Load)]
    unpacks = [n for n in ast.walk(f.node) if isinstance(n, ast.Assign) and isinstance(n.value, ast.Name) and n.value.id in same
               and isinstance(n.targets[0], (ast.Tuple, ast.List)) and not any(isinstance(e, ast.Starred) for e in n.targets[0].elts)]
    guards = []
    for n in g.nodes():
        st = g.stmt[n]
        if isinstance(st, ast.If) and any(isinstance(x, ast.Call) and callee_name(x) == "len" and x.args and isinstance(x.args[0], ast.Name)
                                          and x.args[0].id in same for x in ast.walk(st.test)):
            # the test must lead to a raise on one side
            t = C.reach_under(g, lambda e, st=st: True if e is st.test else None, start=n)
            e_ = C.reach_under(g, lambda e, st=st: False if e is st.test else None, start=n)
            if any(g.kind[x] == "raise" for x in t - e_) or any(g.kind[x] == "raise" for x in e_ - t):
                guards.append(n)
    for rd in reads:
        r.site(L.site(f, rd, "positional operand"))
        n = g.node_containing(rd)
        if n is not None and (dom[n] & set(guards)):
            r.ok({"read": unparse(rd), "guarded_by_length_test": True})
        else:
            r.fail(Finding(rid, f, f"arity:[{rd.slice.value}]", f"{unparse(rd)} is read by position without a dominating len(..) test that raises: "
                           f"(+ a b c) silently loses c", node=rd))
    for u in unpacks:
        r.site(L.site(f, u, "operands unpacked"))
        r.ok({"unpack": unparse(u, 60), "arity_enforced_by": f"unpacking into {len(u.targets[0].elts)} names raises on any other length"})
    if not reads and not unpacks:
        raise AnalysisError("construct_expression_tree: neither positional operand reads nor an unpacking of the expression list were found")
    r.require_sites(1)
    return r


COMPARISON_VOCABULARY = {"<=", ">=", "<", ">", "="}
_COMPLEMENT = {"<=": ">", ">=": "<", "<": ">=", ">": "<="}
_MIRROR = {"<=": ">=", ">=": "<=", "<": ">", ">": "<", "=": "="}


def rule_optables(repo: Repo, rid: str = "C01.optables") -> RuleResult:
    """a table that maps comparison operators to comparison operators rewrites the formula: it has to be the identity, the exact
    complement (what `not` means: <= becomes >, < becomes >=) or the exact mirror (what swapping the operands means); a mixture accepts
    a form silently and gives it another meaning at the boundary (equal operands)"""
    r = RuleResult(rid, "operator-to-operator tables of the parsers are the identity, the complement or the mirror of the comparison operators -- and the complement where used under (not ..)",
                   "each action's precondition denotes the same formula as written (a negated comparison is complemented or rejected)")
    mods = [repo.module(m) for m in ("lisp_parsers.parsing_utils",) + tuple(PARSER_MODS)]
    found = 0
    for m in mods:
        for name, (kind, node) in list(m.defs.items()):
            if kind != "const" or not isinstance(node, ast.Dict) or not node.keys:
                continue
            ok, keys = True, []
            pairs = {}
            for k, v in zip(node.keys, node.values):
                if not (isinstance(k, ast.Constant) and isinstance(v, ast.Constant) and k.value in COMPARISON_VOCABULARY and v.value in COMPARISON_VOCABULARY):
                    ok = False
                    break
                pairs[k.value] = v.value
            if not ok or not pairs:
                continue
            found += 1
            r.site(f"{m.short}.{name}")
            owner = (m.short, name, str(m.path))
            kinds = {"identity": all(k == v for k, v in pairs.items()),
                     "complement": all(_COMPLEMENT.get(k) == v for k, v in pairs.items()),
                     "mirror": all(_MIRROR.get(k) == v for k, v in pairs.items())}
            which = [k for k, v in kinds.items() if v]
            if not which:
                wrong = {k: v for k, v in pairs.items() if _COMPLEMENT.get(k) != v}
                r.fail(Finding(rid, owner, f"operator-table:mixed:{name}", f"{name} = {pairs} is neither the complement nor the mirror of the comparison operators "
                               f"(as a negation table {wrong} are wrong: with equal operands the rewritten comparison differs from the negated one)", node=node))
            else:
                r.ok({"table": f"{m.short}.{name}", "is": which})
    if not found:
        r.site("no operator-to-operator table in the parser modules")
        r.ok({"tables": 0})
    return r


# --------------------------------------------------------------------------- duplicate keys
def rule_dupkeys(repo: Repo, rid: str, funcs: List[str]) -> RuleResult:
    """`funcs` are public entry points; the dict is whatever is handed over as `signature=` to a Predicate / PDDLFunction /
    GroundedPredicate constructor, however it was built (comprehension, loop with stores, dict(zip(..)), helper function)."""
    r = RuleResult(rid, "a signature dict keyed directly by the tokens of an argument list collapses repeated arguments",
                   "atoms with a repeated argument keep their arity and argument positions (or are rejected)")
    for spec in funcs:
        f = L.fn(repo, spec)
        p = L.prov(repo, f)
        found = False
        sig_args = []
        for c in L.calls_in(f.node):
            if callee_name(c) in ("Predicate", "PDDLFunction", "GroundedPredicate") and isinstance(c.func, ast.Name):
                init = repo.find_method(callee_name(c), "__init__")
                sg = L.arg_of(c, init, "signature")
                if sg is not None:
                    sig_args.append((c, sg))
        for c, sg in sig_args:
            ents = L.map_entries(p.trace(sg, keys=True))
            keys = [e for k, e in ents if k == "key" and "askey" not in e]
            tok = sorted({x[0].split(":", 1)[1] for x in keys if x[0].startswith("param:") and any(st.startswith("slice:1") for st in x)})
            via_map = any(x[0] == "param:parameters_map" and "item" in x for x in keys)
            if not tok and not via_map:
                continue
            found = True
            src = "/".join(tok) if tok else "parameters_map"
            r.site(L.site(f, c, "token-keyed signature"))
            # distinctness guard / multiplicity bookkeeping in the function?
            counter = any(isinstance(x, ast.Call) and callee_name(x) == "Counter" for x in ast.walk(f.node))
            guard = any(isinstance(x, ast.Compare) and any(isinstance(y, ast.Call) and callee_name(y) == "set" for y in ast.walk(x))
                        and any(isinstance(y, ast.Call) and callee_name(y) == "len" for y in ast.walk(x)) for x in ast.walk(f.node))
            if guard:
                r.ok({"function": f.qn, "distinctness_guard": True})
            elif counter:
                r.fail(Finding(rid, f, f"dict-key-position:{src}", f"the signature handed to {unparse(c, 50)} keeps the multiplicity of repeated arguments "
                               f"(Counter) but not their positions: (f a b a) is written back as (f a a b)", node=c))
            elif via_map:
                r.fail(Finding(rid, f, f"dict-key:{src}", f"the grounded signature handed to {unparse(c, 50)} is keyed by the argument value: "
                               f"a call with a repeated object collapses two parameters into one", node=c))
            else:
                r.fail(Finding(rid, f, f"dict-key:{src}", f"the signature handed to {unparse(c, 50)} is keyed by the argument tokens: a repeated argument "
                               f"(r ?x ?x) collapses to one entry (arity and positions are lost)", node=c))
        if not sig_args:
            raise AnalysisError(f"{spec}: no Predicate / PDDLFunction construction with a signature found")
        if not found:
            r.site(f.qn + " [no token-keyed dict]")
            r.ok({"function": f.qn, "token_keyed_dict": False})
    r.require_sites(len(funcs))
    return r


# --------------------------------------------------------------------------- order
def rule_order(repo: Repo, rid: str = "C01.order") -> RuleResult:
    r = RuleResult(rid, "argument / parameter tokens reach the signature in textual order (no sorted / set / reversed on the way)",
                   "parameter order is preserved")
    bad_steps = ("arg0:sorted", "arg0:reversed", "arg0:set", "arg0:frozenset", "call:sort", "call:reverse", "arg0:Counter")
    for spec in ("lisp_parsers.parsing_utils::parse_signature", "lisp_parsers.parsing_utils::parse_untyped_predicate",
                 "models.numerical_expression::construct_expression_tree", "DomainParser._parse_predicate", "DomainParser.parse_functions",
                 "DomainParser.parse_action"):
        f = repo.func(spec)
        p = L.prov(repo, f)
        iters = [n.iter for n in ast.walk(f.node) if isinstance(n, (ast.For, ast.comprehension))]
        iters += [c.args[0] for c in L.calls_in(f.node) if callee_name(c) in ("parse_signature", "iter") and c.args]
        r.site(f.qn)
        offenders = []
        for it in iters:
            for x in p.trace(it):
                if x[0].startswith("param:") and any(s.startswith(bad_steps) for s in x):
                    offenders.append((unparse(it, 50), [s for s in x if s.startswith(bad_steps)]))
        if offenders:
            r.fail(Finding(rid, f, "reordered-tokens", f"tokens are re-ordered / de-duplicated before use: {offenders[:2]}"))
        else:
            r.ok({"function": f.qn, "iterables_checked": len(iters)})
    r.require_sites(6)
    return r


# --------------------------------------------------------------------------- trailing group
def rule_leftover(repo: Repo, rid: str, specs: List[str]) -> RuleResult:
    r = RuleResult(rid, "dash-grouped typed-list readers flush (or reject) the trailing group that has no '- type' suffix",
                   "the parsed declarations are exactly the declared names")
    for spec in specs:
        f = L.fn(repo, spec)
        g = C.cfg_of(f.node)
        # accumulator: a local list that receives tokens with .append inside the main loop
        accs = {}
        for c in L.calls_in(f.node):
            if isinstance(c.func, ast.Attribute) and c.func.attr == "append" and isinstance(c.func.value, ast.Name):
                n = g.node_containing(c)
                if n is not None and g.loop_of.get(n) is not None:
                    accs[c.func.value.id] = g.loop_of[n]
        r.site(f.qn)
        if not accs:
            raise AnalysisError(f"{spec}: token accumulator not recognised (dash-grouped list idiom changed)")
        flushed = {}
        for acc, loop_head in accs.items():
            # outermost loop containing the append
            top = loop_head
            while g.loop_of.get(top) is not None:
                top = g.loop_of[top]
            # ways the tests on sentinels / constants leave open (`kind is _UNTYPED` on a token is false): a jump out of the walk that
            # only an infeasible branch takes is no way out
            Gf = L.Guards(f, lambda e: None)
            feasible = Gf.reach({})
            seeds = {m for m, l in g.succ[top] if l != "iter"}
            after = C.reachable_from(g, top, follow=lambda a, b, l: not (a == top and l == "iter"))
            # the statements of the loop (syntactically: a `break` leaves the loop, what follows it is not "in the loop")
            inloop = set()
            for x in ast.walk(g.stmt[top]):
                if isinstance(x, (ast.stmt, ast.ExceptHandler)) and x is not g.stmt[top]:
                    nx = g.node_of(x)
                    if nx is not None:
                        inloop.add(nx)
            seeds |= {m for n_ in inloop if n_ in feasible for m, _l in g.succ[n_] if m not in inloop and m != top}
            after = after | {m for n_ in inloop for m, _l in g.succ[n_] if m not in inloop and m != top}
            after = set().union(*[C.reachable_from(g, a_) for a_ in after]) if after else after
            use_nodes = set()
            for n in after - inloop - {top}:
                st = g.stmt[n]
                if st is None:
                    continue
                h = C.header(st)
                if h is None:
                    continue
                names = L.aliases(f, {acc})
                for x in ast.walk(h):
                    if isinstance(x, ast.Name) and x.id in names and isinstance(x.ctx, ast.Load):
                        # a use in a store / call / raise-guard, not merely a re-initialisation or a plain copy
                        if not (isinstance(st, (ast.Assign, ast.AnnAssign)) and isinstance(st.value, ast.Name) and st.value.id in names) and \
                                not (isinstance(st, ast.Assign) and any(isinstance(t, ast.Name) and t.id == acc for t in st.targets)):
                            use_nodes.add(n)
            # every way out of the function after the loop passes a use of the accumulator (flush or rejection)
            dom = C.dominators(g)
            outs = [n for n in (after - inloop - {top}) if g.kind[n] == "return"] + \
                   [n for n, _ in g.pred[g.exit] if n in (after - inloop) and g.kind[n] != "return"]
            if top in [n for n, _ in g.pred[g.exit]]:
                outs.append(top)
            by_dominance = bool(use_nodes) and all((dom[o] & use_nodes) or o in use_nodes for o in outs)
            # ... or, when several statements share the work (one per branch), no way from the end of the loop to the function's exit avoids them all
            escapes = any(g.exit in C.reachable_from(g, s_, avoid=use_nodes) and g.exit in Gf.reach({}, avoid=use_nodes, start=s_)
                          for s_ in seeds if s_ not in use_nodes) or (g.exit in seeds)
            flushed[acc] = bool(use_nodes) and (by_dominance or not escapes)
        if all(flushed.values()):
            r.ok({"function": f.qn, "accumulators": sorted(accs), "flushed_after_loop": True})
        else:
            lost = [a for a, v in flushed.items() if not v]
            # the role names the group as the source does: the numbering the engine adds to the locals of helpers analysed in place is dropped
            r.fail(Finding(rid, f, f"trailing-group:{'/'.join(sorted({a.split('__')[0] or a for a in lost}))}", f"names collected in {sorted(lost)} after the last '- type' are never "
                           f"stored nor rejected: the trailing untyped group is dropped"))
    r.require_sites(len(specs))
    return r


def rule_typedlist(repo: Repo, rid: str, specs: List[str], lookup_required: bool = True) -> RuleResult:
    """dash-grouped typed lists `a b - t c - u d`: every collected name gets the type named after the dash (unknown type names are
    rejected), the group is reset after it was flushed, the current token is collected otherwise."""
    r = RuleResult(rid, "typed lists: each group 'n1 n2 - t' gives all its names the type t (unknown t rejected), then the group is reset",
                   "names, parameter order and parameter types of the declarations")
    for spec in specs:
        f = L.fn(repo, spec)
        g = C.cfg_of(f.node)
        p = L.prov(repo, f)
        accs = {}
        for c in L.calls_in(f.node):
            if isinstance(c.func, ast.Attribute) and c.func.attr == "append" and isinstance(c.func.value, ast.Name):
                n = g.node_containing(c)
                if n is not None and g.loop_of.get(n) is not None:
                    accs[c.func.value.id] = (g.loop_of[n], c)
        if not accs:
            raise AnalysisError(f"{spec}: token accumulator not recognised (dash-grouped list idiom changed)")
        for acc, (loop_head, app) in accs.items():
            top = loop_head
            while g.loop_of.get(top) is not None:
                top = g.loop_of[top]
            inloop = C.reachable_from(g, top, follow=lambda a, b, l: not (a == top and l == "done")) - {top}
            names = L.aliases(f, {acc})
            # flush nodes: statements inside the loop that read the accumulator (other than the append / a re-initialisation)
            flush, resets = [], []
            for n in inloop:
                st = g.stmt[n]
                if st is None:
                    continue
                h = C.header(st)
                if isinstance(st, ast.Assign) and any(isinstance(t, ast.Name) and t.id == acc for t in st.targets):
                    if isinstance(st.value, (ast.List, ast.Call)) and not any(isinstance(x, ast.Name) and x.id == acc for x in ast.walk(st.value)):
                        resets.append(n)
                    continue
                if h is not None and any(isinstance(x, ast.Name) and x.id in names and isinstance(x.ctx, ast.Load) for x in ast.walk(h)):
                    if g.node_containing(app) == n:
                        continue
                    if isinstance(st, (ast.Assign, ast.AnnAssign)) and isinstance(st.value, ast.Name) and st.value.id in names:
                        continue  # a plain copy (parameter binding of a helper analysed in place)
                    if isinstance(st, (ast.If, ast.Assert)) and not any(isinstance(x, (ast.Call,)) and isinstance(x.func, ast.Attribute) and x.func.attr in ("update", "add", "append") for x in ast.walk(h)):
                        continue  # a validation of the group (e.g. every name starts with '?')
                    flush.append(n)
                if isinstance(st, ast.Expr) and isinstance(st.value, ast.Call) and isinstance(st.value.func, ast.Attribute) and st.value.func.attr == "clear" \
                        and isinstance(st.value.func.value, ast.Name) and st.value.func.value.id == acc:
                    resets.append(n)
            r.site(f"{f.qn} [{acc}: flush]")
            if not flush:
                r.fail(Finding(rid, f, f"group-never-flushed:{acc}", f"names collected in {acc} are never given their type inside the loop"))
                continue
            # (1) reset after flush on every way back to the loop head
            leaky = []
            for fl in flush:
                seen = C.reachable_from(g, fl, avoid=resets)
                if top in seen and fl not in resets:
                    leaky.append(fl)
            if leaky:
                r.fail(Finding(rid, f, f"group-not-reset:{acc}", f"after a group was given its type {acc} is not emptied on every path: the names of the "
                               f"previous group are typed again by the next '- type'", node=g.stmt[leaky[0]]))
            else:
                r.ok({"function": f.qn, "accumulator": acc, "reset_after_flush": True})
            # (2) the type comes from the token after the dash, through a lookup that rejects unknown names
            r.site(f"{f.qn} [{acc}: type lookup]")
            listparam = [x for x in f.params if x != f.self_name][0]
            good = bad = None
            # the lookup may sit in the flushing statement or further on (the group handed over in a record, typed by a helper)
            scopes = [g.stmt[fl] if not isinstance(g.stmt[fl], ast.For) else ast.Module(body=g.stmt[fl].body, type_ignores=[]) for fl in flush]
            scopes.append(f.node)
            for scope in scopes:
                for sub in ast.walk(scope):
                    if isinstance(sub, ast.Subscript) and not isinstance(sub.slice, ast.Slice):
                        try:
                            tr_key = p.trace(sub.slice)
                            tr_map = p.trace(sub.value)
                        except KeyError:
                            continue        # an annotation
                        if any(x[0] == f"param:{listparam}" for x in tr_key) and any("types" in "/".join(x) for x in tr_map):
                            good = sub
                    if isinstance(sub, ast.Call) and isinstance(sub.func, ast.Attribute) and sub.func.attr == "get" and len(sub.args) == 2 and \
                            any("types" in "/".join(x) for x in p.trace(sub.func.value)):
                        bad = sub
            if not lookup_required:
                r.ok({"function": f.qn, "type_lookup": "creates types (no lookup required)"})
            elif good is not None and bad is None:
                r.ok({"function": f.qn, "type_lookup": unparse(good, 60)})
            elif bad is not None:
                r.fail(Finding(rid, f, f"type-default:{acc}", f"{unparse(bad, 60)} falls back to a default for an unknown type name instead of rejecting it", node=bad))
            else:
                r.fail(Finding(rid, f, f"type-source:{acc}", "the type given to a group does not come from a lookup keyed by the token after the dash"))
            # (3) the current token is what is collected
            r.site(f"{f.qn} [{acc}: collect]")
            tr = p.trace(app.args[0]) if app.args else set()
            if any(x[0] == f"param:{listparam}" for x in tr):
                r.ok({"collects": unparse(app.args[0])})
            else:
                r.fail(Finding(rid, f, f"collect:{acc}", f"{unparse(app)} does not collect the current token"))
    r.require_sites(3 * len(specs))
    return r


# --------------------------------------------------------------------------- handlers judged per input class (guard valuation; see _c01_util)
from . import _c01_util as U
from ._c01_util import Scenario as S

OTHER = U.UNKNOWN_TOKEN
RECURSION = "<descent>"        # site: the recursive descent call, whatever method of the class carries it
# how a value reaches a parameter of `parse` (PreconditionsParser.parse / EffectsParser.parse share the name: positional arguments are
# not resolved to a parameter name by the engine)
TO_ROOT = ("parse.precondition_root", "arg0:parse")
TO_AST = ("parse.preconditions_ast", "arg1:parse")
NUMERIC_TREE = ["construct_expression_tree.expression_ast", "NumericalExpressionTree.expression_tree"]
LITERAL = ["parse_untyped_predicate.untyped_predicate"]
_NUMERIC_SINK = dict(sink=((), [((), NUMERIC_TREE)]))

# PDDL 2.1 level-2 precondition nodes: what each form must become (positions are those of the written list: (p ?x) -> 0 is the head)
PRECONDITION_SCENARIOS = [
    S("and", tok={(0,): "and"}, sink=((), [((0,), ["Precondition.binary_operator"])]), nested_result=True,
      sites=[(RECURSION, [(("1:",), ["=", "@ast"]), ("fresh:Precondition", ["=", "@root"])])]),
    S("or", tok={(0,): "or"}, sink=((), [((0,), ["Precondition.binary_operator"])]), nested_result=True,
      sites=[(RECURSION, [(("1:",), ["=", "@ast"]), ("fresh:Precondition", ["=", "@root"])])]),
    S("atom", tok={(0,): OTHER}, declared=True, sink=((), [((), LITERAL)])),
    S("undeclared", tok={(0,): OTHER}, declared=False, reject="a literal over an undeclared predicate / an unknown keyword (imply, exists) is rejected"),
    S("not-atom", tok={(0,): "not", (1, 0): OTHER}, sink=((), [((1,), LITERAL)])),
    S("not-equal", tok={(0,): "not", (1, 0): "="}, sink=(("inequality_preconditions",), [((1, 1), ["in:0"]), ((1, 2), ["in:1"])])),
    S("equal-objects", tok={(0,): "=", (1,): "?x", (2,): "?y"}, sink=(("equality_preconditions",), [((1,), ["in:0"]), ((2,), ["in:1"])])),
    S("equal-numeric", tok={(0,): "="}, is_list={(1,): True}, **_NUMERIC_SINK),
    S("<=", tok={(0,): "<="}, **_NUMERIC_SINK), S(">=", tok={(0,): ">="}, **_NUMERIC_SINK),
    S("<", tok={(0,): "<"}, **_NUMERIC_SINK), S(">", tok={(0,): ">"}, **_NUMERIC_SINK),
    S("forall", tok={(0,): "forall", (2, 0): "and"}, length={(): 3, (1,): 3},
      sink=((), [((1, 0), ["UniversalPrecondition.quantified_parameter"]), ((2, 0), ["UniversalPrecondition.binary_operator"]),
                 ((1, 2), ["askey", "UniversalPrecondition.quantified_type"])]),
      sites=[(RECURSION, [((2, "1:"), ["=", "@ast"]), ("fresh:UniversalPrecondition", ["=", "@root"]), ((1, 0), ["in:key", "@root"])])]),
    S("forall-two-variables", tok={(0,): "forall", (2, 0): "and"}, length={(): 3, (1,): 6}, reject="(forall (?x - t ?y - u) ..) is outside the fragment: one quantified variable"),
    S("forall-untyped-variable", tok={(0,): "forall", (2, 0): "and"}, length={(): 3, (1,): 1}, reject="(forall (?x) ..): the quantified variable needs '- type'"),
    S("forall-imply", tok={(0,): "forall", (2, 0): "imply"}, length={(): 3, (1,): 3}, reject="the quantified body must be a conjunction / disjunction"),
    S("forall-literal", tok={(0,): "forall", (2, 0): OTHER}, length={(): 3, (1,): 3}, reject="the quantified body must be a conjunction / disjunction"),
]


_QUANTIFIED = [((1, 0), ["UniversalEffect.quantified_parameter"]), ((1, 2), ["askey", "UniversalEffect.quantified_type"])]
_WHEN = dict(tok={(0,): "when"}, length={(): 3})
# PDDL 2.1 level-2 effect nodes (inside the top-level `and`): literal, (not literal), numeric update, (when c e), (forall (?v - t) (when c e))
EFFECT_SCENARIOS = [
    S("atom", tok={(0,): OTHER}, declared=True, sink=(("discrete_effects",), [((), LITERAL)])),
    S("unknown", tok={(0,): OTHER}, declared=False, reject="scale-up / scale-down / an undeclared predicate / a nested `and` is rejected"),
    S("not", tok={(0,): "not"}, sink=(("discrete_effects",), [((1,), LITERAL)])),
    S("assign", tok={(0,): "assign"}, sink=(("numeric_effects",), [((), NUMERIC_TREE)])),
    S("increase", tok={(0,): "increase"}, sink=(("numeric_effects",), [((), NUMERIC_TREE)])),
    S("decrease", tok={(0,): "decrease"}, sink=(("numeric_effects",), [((), NUMERIC_TREE)])),
    S("when", tok={(0,): "when", (1, 0): "and", (2, 0): "and"}, length={(): 3}, sink=(("conditional_effects",), [("fresh:ConditionalEffect", [])]),
      sites=[("parse", [((1, "1:"), [TO_AST])])]),
    S("when-single", tok={(0,): "when", (1, 0): OTHER, (2, 0): OTHER}, length={(): 3}, sink=(("conditional_effects",), [("fresh:ConditionalEffect", [])]),
      sites=[("parse", [((1,), ["in:0", TO_AST])])]),
    S("when-two-parts", tok={(0,): "when"}, length={(): 2}, reject="(when c) has no effect part"),
    S("when-four-parts", tok={(0,): "when"}, length={(): 4}, reject="(when c e1 e2): the effects of a `when` are one node"),
    S("forall", tok={(0,): "forall", (2, 0): "when", (2, 1, 0): "and", (2, 2, 0): "and"}, length={(): 3, (1,): 3, (2,): 3},
      sink=(("universal_effects",), _QUANTIFIED), sites=[("parse", [((2, 1, "1:"), [TO_AST])])]),
    S("forall-two-variables", tok={(0,): "forall", (2, 0): "when"}, length={(): 3, (1,): 6, (2,): 3}, reject="one quantified variable"),
    S("forall-untyped-variable", tok={(0,): "forall", (2, 0): "when"}, length={(): 3, (1,): 1, (2,): 3}, reject="the quantified variable needs '- type'"),
    S("forall-two-bodies", tok={(0,): "forall", (2, 0): "when"}, length={(): 4, (1,): 3, (2,): 3}, reject="(forall (?v - t) e1 e2): one body"),
    S("forall-no-body", tok={(0,): "forall"}, length={(): 2, (1,): 3}, reject="(forall (?v - t)) has no body"),
]


_ENTRY_SINK = (("preconditions",), [("fresh:CompoundPrecondition", [])])
_ENTRY_ROOT = ("fresh:CompoundPrecondition", ["attr:root", TO_ROOT])
# the :precondition body handed to DomainParser.parse_preconditions
PRECONDITION_BODY_SCENARIOS = [
    S("()", length={(): 0}, accept_only="the empty precondition is grammatical: nothing is read from the empty list"),
    S("(and c1 c2)", tok={(0,): "and"}, length={(): 3}, sink=_ENTRY_SINK, sites=[("parse", [(("1:",), [TO_AST]), _ENTRY_ROOT])]),
    S("(and c)", tok={(0,): "and"}, length={(): 2}, sink=_ENTRY_SINK, sites=[("parse", [(("1:",), [TO_AST]), _ENTRY_ROOT])]),
    S("(p ?x)", tok={(0,): OTHER}, length={(): 2}, sink=_ENTRY_SINK, sites=[("parse", [((), ["in:0", TO_AST]), _ENTRY_ROOT])]),
    S("(flag)", tok={(0,): OTHER}, length={(): 1}, sink=_ENTRY_SINK, sites=[("parse", [((), ["in:0", TO_AST]), _ENTRY_ROOT])]),
    S("(not (p ?x))", tok={(0,): "not"}, length={(): 2}, sink=_ENTRY_SINK, sites=[("parse", [((), ["in:0", TO_AST]), _ENTRY_ROOT])]),
]


_OPERAND = "construct_expression_tree.expression_ast"
_ARITH = dict(is_list={(): True}, flat={(): True})
_FUNC_KEY = (("1:",), [("arg0:zip", "in:key", "in:setkey"), "PDDLFunction.signature", "AnyNode.value"])
# numeric expressions handed to construct_expression_tree: a token, a flat list (fluent / arithmetic over two numbers), a nested binary form
EXPRESSION_SCENARIOS = [
    S("number", tok={(): OTHER}, returns=[((), ["arg0:float", "AnyNode.value"])]),
    S("operator-as-operand", tok={(): "+"}, reject="a bare operator token is not an operand"),
    S("(+ 1 2)", tok={(0,): "+", (1,): "1", (2,): "2"}, length={(): 3}, **_ARITH,
      returns=[((0,), ["=", "AnyNode.value"]), ((1,), ["arg0:float", "AnyNode.value", "in:0", "AnyNode.children"]),
               ((2,), ["arg0:float", "AnyNode.value", "in:1", "AnyNode.children"])]),
    S("(* 1 2 3)", tok={(0,): "*", (1,): "1", (2,): "2", (3,): "3"}, length={(): 4}, **_ARITH, reject="n-ary arithmetic is outside the fragment"),
    S("(- 1)", tok={(0,): "-", (1,): "1"}, length={(): 2}, **_ARITH, reject="unary minus is outside the fragment"),
    S("(total-cost)", tok={(0,): OTHER}, length={(): 1}, **_ARITH,
      returns=[("param:domain_functions", ["=", "item", "AnyNode.value"]), ((0,), ["=", "askey", "AnyNode.value"])]),
    S("(f ?x)", tok={(0,): OTHER, (1,): "?x"}, length={(): 2}, **_ARITH, returns=[((0,), ["=", "PDDLFunction.name", "AnyNode.value"]), _FUNC_KEY]),
    S("(f ?x ?y)", tok={(0,): OTHER, (1,): "?x", (2,): "?y"}, length={(): 3}, **_ARITH, returns=[((0,), ["=", "PDDLFunction.name", "AnyNode.value"]), _FUNC_KEY]),
    S("(<= a b)", tok={(0,): "<="}, length={(): 3}, is_list={(): True}, flat={(): False},
      returns=[((0,), ["=", "AnyNode.value"]), ((1,), [_OPERAND, "in:0", "AnyNode.children"]), ((2,), [_OPERAND, "in:1", "AnyNode.children"])]),
    S("(+ a b c)", tok={(0,): "+"}, length={(): 4}, is_list={(): True}, flat={(): False}, reject="n-ary arithmetic is outside the fragment"),
    S("(- a)", tok={(0,): "-"}, length={(): 2}, is_list={(): True}, flat={(): False}, reject="unary minus is outside the fragment"),
]


_TYPES = ("fresh:Domain", ["=", "attr:types"])
# the sections of (define (domain ..) ..): what each one must fill in the Domain, from which part of the section, with which vocabulary
SECTION_SCENARIOS = [
    S("domain", tok={(0,): "domain"}, length={(): 2}, sink=(("name",), [((1,), ["="])])),
    S(":requirements", tok={(0,): ":requirements"}, sink=(("requirements",), [(("1:",), ["="])])),
    S(":types", tok={(0,): ":types"}, sink=(("types",), [(("1:",), ["=", "parse_types.types"])])),
    S(":constants", tok={(0,): ":constants"}, sink=(("constants",), [(("1:",), ["=", "parse_constants.constants_ast"]), (_TYPES[0], _TYPES[1] + ["parse_constants.domain_types"])])),
    S(":predicates", tok={(0,): ":predicates"}, sink=(("predicates",), [(("1:",), ["=", "parse_predicates.predicates_ast"]), (_TYPES[0], _TYPES[1] + ["parse_predicates.domain_types"])])),
    S(":functions", tok={(0,): ":functions"}, sink=(("functions",), [(("1:",), ["=", "parse_functions.functions_ast"]), (_TYPES[0], _TYPES[1] + ["parse_functions.domain_types"])])),
    S(":action", tok={(0,): ":action"}, sink=(("actions",), [(("1:",), ["=", "parse_action.action_ast"]), (_TYPES[0], _TYPES[1] + ["parse_action.domain_types"]),
                                                          ("fresh:Domain", ["=", "attr:functions", "parse_action.domain_functions"]),
                                                          ("fresh:Domain", ["=", "attr:predicates", "parse_action.domain_predicates"]),
                                                          ("fresh:Domain", ["=", "attr:constants", "parse_action.domain_constants"])])),
]
# a literal of an action body: (p a1 .. an) -> Predicate(name = p, signature = {ai: type of ai}) looked up among the action's parameters and the constants
LITERAL_FLOWS = [((0,), ["=", "Predicate.name"]), (("1:", "*"), ["=", ("in:key", "in:setkey"), "Predicate.signature"]),
                 (("1:", "*"), ["=", "askey", ("in:value", "in:setval"), "Predicate.signature"]),
                 ("param:action_signature", [("in:value", "in:setval"), "Predicate.signature"]),
                 ("param:domain_constants", [("in:value", "in:setval"), "Predicate.signature"]),
                 ("param:is_positive", ["=", "Predicate.is_positive"])]
LITERAL_SCENARIOS = [S("(p ?x ?y)", returns=LITERAL_FLOWS)]


def _const_mods(repo: Repo, f: FuncInfo) -> List[str]:
    mods = {f.mod.name, repo.module("lisp_parsers.parsing_utils").name}
    for qn in getattr(f, "inlined", []) or []:
        if "::" in qn:
            try:
                mods.add(repo.module(qn.split("::")[0]).name)
            except Exception:
                pass
    return sorted(mods)


def _function_model(repo: Repo, spec: str, inline_public: bool = False):
    """the whole function as the handler of ONE node: the parameter whose head is tested"""
    f0 = repo.func(spec)
    f = L.fn(repo, spec, also=(U.public_callees(repo, f0) or None) if inline_public else None)
    best = None
    for pn in f.params:
        if pn == f.self_name:
            continue
        tr = {(f"param:{pn}",)}
        model = U.NodeModel(repo, f, tr, const_mods=_const_mods(repo, f))
        if model.tests and (best is None or len(model.tests) > len(best[1].tests)):
            best = (tr, model)
    if best is None:
        # a handler without any test of its node: the node is the first parameter
        first = [pn for pn in f.params if pn != f.self_name][:1]
        if not first:
            raise AnalysisError(f"{spec}: no parameter -- the handler idiom is not interpreted")
        tr = {(f"param:{first[0]}",)}
        best = (tr, U.NodeModel(repo, f, tr, const_mods=_const_mods(repo, f)))
    tr, model = best
    return f, None, tr, model, U.Region(model, None)


def _list_source(path) -> bool:
    """the path denotes (a positional part of) a parsed list that was handed in: a parameter, or the result of the tokenizer"""
    k = len(path)
    while k > 1 and U.norm_pos(path[k - 1:k])[1] == ():
        k -= 1
    head = path[:k]
    if head[0].startswith("param:"):
        return len(head) == 1
    return head[0] == "self" and len(head) >= 2 and head[-1].startswith("call:") and all(s.startswith("attr:") for s in head[1:-1])


def _source_pos(path):
    k = len(path)
    while k > 1 and U.norm_pos(path[k - 1:k])[1] == ():
        k -= 1
    return U.norm_pos(path[k:])[0]


def _node_model(repo: Repo, spec: str, mode: str = "loop", inline_public: bool = True):
    """(flattened function with the public methods it calls on self analysed in place, node loop, NodeModel, Region)"""
    if mode == "function":
        return _function_model(repo, spec)
    f0 = repo.func(spec)
    f = L.fn(repo, spec, also=(U.public_callees(repo, f0) or None) if inline_public else None)
    p = L.prov(repo, f)
    # the outermost loop over (a positional part of) a list handed in whose element's head is tested: the walk over the nodes.
    # Found by provenance: the tests are those of NodeModel (position 0 of the element), whatever the head is called or unpacked into
    best = None
    for lp in [n for n in ast.walk(f.node) if isinstance(n, ast.For)]:
        try:
            tr = p.trace(lp.iter)
        except (KeyError, RecursionError):
            continue
        if not tr or not all(_list_source(x) for x in tr):
            continue
        model = U.NodeModel(repo, f, {x + ("elem",) for x in tr}, const_mods=_const_mods(repo, f))
        if model.head_tests() < 1:
            continue
        if best is None or len(list(ast.walk(lp))) > len(list(ast.walk(best[0]))):
            best = (lp, tr, model)
    if best is None:
        raise AnalysisError(f"{spec}: the loop over the nodes of the parsed list (element head tested) was not found")
    loop, tr, model = best
    return f, loop, tr, model, U.Region(model, loop)


PRINTED = {"arg0:format", "arg0:str", "arg0:repr"}     # a value that went through these is the TEXT of the object, not the object


def _flow_ok(F, e, flows) -> List[str]:
    """the flows (origin, steps) that the value of `e` does NOT have.  steps: names in this order (other steps may lie between, but never
    a printing step: the printed form of a part is not the part); a leading "=" asks for exactly these steps; a tuple is a choice"""
    missing = []
    for origin, steps in flows:
        exact = bool(steps) and steps[0] == "="
        alts = [s if isinstance(s, tuple) else (s,) for s in (steps[1:] if exact else steps)]
        ok = False
        for o, have in F.of(e):
            if o != origin:
                continue
            if any(h in PRINTED and not any(h in alt for alt in alts) for h in have):
                continue
            if exact:
                if len(have) == len(alts) and all(h in alt for h, alt in zip(have, alts)):
                    ok = True
                    break
                continue
            it = iter(have)
            if all(any(h in alt for h in it) for alt in alts):
                ok = True
                break
        if not ok:
            missing.append(f"{_pos_text(origin)} -> {' -> '.join('/'.join(a) for a in alts)}")
    return missing


def _pos_text(o) -> str:
    if isinstance(o, tuple):
        return "node" + "".join(f"[{k}]" for k in o)
    return str(o)


def _descent_params(repo: Repo, f: FuncInfo, c: ast.Call):
    """{'@ast': steps that hand a value to the list parameter of the callee, '@root': steps to any other parameter} for a call
    `self.m(..)` of a method of the anchor's class (or the anchor); the list parameter is the one the callee iterates"""
    if not (isinstance(c.func, ast.Attribute) and isinstance(c.func.value, ast.Name) and f.cls and c.func.value.id == f.self_name):
        return None
    cn = c.func.attr
    t = repo.find_method(f.cls, cn)
    if t is None:
        return None
    cache = repo.__dict__.setdefault("_c01_list_params", {})
    if t.qn not in cache:
        lp: Set[str] = set()
        try:
            ft = L.fn(repo, f"{f.cls}.{cn}")
            pt = L.prov(repo, ft)
            for n in ast.walk(ft.node):
                if isinstance(n, ast.For):
                    try:
                        for x in pt.trace(n.iter):
                            if x[0].startswith("param:") and U.norm_pos(x[1:])[1] == ():
                                lp.add(x[0][6:])
                    except (KeyError, RecursionError):
                        pass
        except AnalysisError:
            pass
        cache[t.qn] = lp
    lp = cache[t.qn]
    params = [x for x in t.params if not (t.is_method and x == t.params[0])]
    if not lp:
        return None
    ast_steps, root_steps = [], []
    for i, pn in enumerate(params):
        steps = [f"{cn}.{pn}", f"arg{i}:{cn}", f"kw:{pn}:{cn}"]
        (ast_steps if pn in lp else root_steps).extend(steps)
    return {"@ast": tuple(ast_steps), "@root": tuple(root_steps)}


def _dispatches_by_table(repo: Repo, spec: str) -> bool:
    """some loop over a list handed in looks its element's head up in a mapping (`table.get(node[0])` / `table[node[0]]`)"""
    f = L.fn(repo, spec)
    p = L.prov(repo, f)
    for lp in [n for n in ast.walk(f.node) if isinstance(n, ast.For)]:
        try:
            tr = p.trace(lp.iter)
        except (KeyError, RecursionError):
            continue
        if not tr or not all(_list_source(x) for x in tr):
            continue
        heads = {x + ("elem", s) for x in tr for s in ("item:0", "unpack:0")}
        for n in ast.walk(lp):
            key = None
            if isinstance(n, ast.Call) and isinstance(n.func, ast.Attribute) and n.func.attr == "get" and n.args:
                key = n.args[0]
            elif isinstance(n, ast.Subscript) and isinstance(n.ctx, ast.Load) and not isinstance(n.slice, (ast.Slice, ast.Constant)):
                key = n.slice
            if key is not None:
                try:
                    kt = p.trace(key)
                except (KeyError, RecursionError):
                    continue
                if kt and kt <= heads:
                    return True
    return False


def rule_scenarios(repo: Repo, rid: str, spec: str, scenarios, what: str, mode: str = "loop", extra_roots=(), inline_public: bool = True,
                   table_dispatch_undecided: bool = False) -> RuleResult:
    """the handler of `spec` under the guard valuation of each input class of the table (see _c01_util; static -- CFG reachability and
    provenance under the valuation, nothing is executed): a supported form is accepted (one turn can end
    without raise, the raise of the unknown-node arm is not reachable), on every accepting path the form reaches the expected sink of the
    object under construction with its parts at the expected constructor / callee parameters, no other part of that object is written, the
    value stored is built in THIS turn; an unsupported form is rejected on every path"""
    r = RuleResult(rid, f"{what}: every supported form is accepted and stored with its parts at the right places, every other form is rejected",
                   "each action's precondition and effect denote the same formula as written; a construct the library cannot represent raises an error")
    try:
        f, loop, tr, model, R = _node_model(repo, spec, mode, inline_public)
    except AnalysisError:
        if not table_dispatch_undecided or not _dispatches_by_table(repo, spec):
            raise
        # the head selects a handler from a mapping built at run time (display + update ..): no test of the head to valuate.
        # Not decided by this clause (C01.sections still checks the arms it can see); recorded, silent
        r.site(f"{spec} [dispatch through a run-time table]")
        r.notes.append(f"{rid} not decided: {spec} picks the handler of a node from a mapping by its head; no head test to valuate")
        r.ok({"decided": False})
        return r
    g = model.g
    ast_params = {x[0] for x in tr}
    roots = {f"param:{x}" for x in f.params if x != f.self_name and f"param:{x}" not in ast_params} | set(extra_roots)
    if loop is None:
        loop = f.node
    if mode == "loop" and model.head_tests() < 2:
        raise AnalysisError(f"{spec}: fewer than two tests of the head of the node were recognised -- the dispatch idiom is not interpreted")
    default_raises = R.raises(S("<unknown>", tok={(0,): OTHER}, declared=False)) if mode == "loop" else set()
    for sc in scenarios:
        r.site(f"{f.qn} [{sc.name}]")
        ex = sc.expect
        if ex.get("reject"):
            if R.completes(sc):
                r.fail(Finding(rid, f, f"accepted:{sc.name}", f"a node of the form <{sc.name}> is not rejected on every path ({ex['reject']})", node=loop))
            else:
                r.ok({"scenario": sc.name, "rejected": True})
            continue
        problems: List[Tuple[str, str, Optional[ast.AST]]] = []
        if ex.get("accept_only"):
            if not R.completes(sc):
                problems.append((f"rejected:{sc.name}", f"the supported form <{sc.name}> is always rejected", None))
            for e in R.exprs(sc, (ast.Subscript,)):
                if isinstance(e.ctx, ast.Load) and R.out_of_range(sc, e):
                    c_ = model.classify(e)
                    problems.append((f"out-of-range:{sc.name}", f"<{sc.name}>: {_pos_text(c_[1])} is read although {_pos_text(c_[1][:-1])} has "
                                     f"{model.length_of(sc, c_[1][:-1])} element(s): the supported form ends in IndexError ({ex['accept_only']})", e))
                    break
            if problems:
                for role, text, node in problems[:3]:
                    r.fail(Finding(rid, f, role, text, node=node or loop))
            else:
                r.ok({"scenario": sc.name, "accepted": True})
            continue
        if not R.completes(sc):
            problems.append((f"rejected:{sc.name}", f"a node of the supported form <{sc.name}> is always rejected (every path of its turn ends in raise)", None))
        else:
            falls = R.raises(sc) & default_raises
            if falls:
                problems.append((f"falls-through:{sc.name}", f"a node of the supported form <{sc.name}> can reach the raise of the unknown-node arm", g.stmt[sorted(falls)[0]]))
            for e in R.exprs(sc, (ast.Subscript,)):
                if isinstance(e.ctx, ast.Load) and R.out_of_range(sc, e):
                    c_ = model.classify(e)
                    problems.append((f"out-of-range:{sc.name}", f"<{sc.name}>: {_pos_text(c_[1])} is read although {_pos_text(c_[1][:-1])} has "
                                     f"{model.length_of(sc, c_[1][:-1])} element(s): the supported form ends in IndexError", e))
                    break
            F = U.Flows(R, sc)
            calls = R.exprs(sc, (ast.Call,))
            stmts = [g.stmt[n] for n in sorted(R.nodes(sc)) if isinstance(g.stmt[n], (ast.Assign, ast.AnnAssign, ast.AugAssign))]
            sinks = U.sinks_of(model, calls + stmts, roots)
            good, notes = set(), []
            if "returns" in ex:
                # the handler RETURNS what the node becomes: every normal exit is a return of a value with the parts in place
                want_attrs, want_flows = ("<returned value>",), ex["returns"]
                for n_ in sorted(R.nodes(sc)):
                    st = g.stmt[n_]
                    if isinstance(st, ast.Return) and st.value is not None:
                        miss = _flow_ok(F, st.value, want_flows)
                        stale = R.stale_names(sc, st.value)
                        if not miss and not stale:
                            good.add(n_)
                        elif stale:
                            notes.append(f"`{unparse(st, 40)}` returns a value that is not built on this path (no definition of {stale} reaches it)")
                        else:
                            notes.append(f"`{unparse(st, 40)}` lacks {miss}")
                sinks = []
            else:
                want_attrs, want_flows = ex["sink"]
            for s in sinks:
                if s.attrs == tuple(want_attrs) and s.kind in ("add", "store") and s.value is not None:
                    miss = _flow_ok(F, s.value, want_flows)
                    stale = R.stale_names(sc, s.node)
                    if not miss and not stale:
                        good.add(g.node_containing(s.node) if not isinstance(s.node, ast.stmt) else g.node_of(s.node))
                    elif stale:
                        notes.append(f"{s.label()} stores a value left over from an earlier node (no definition of {stale} in this turn)")
                    else:
                        notes.append(f"{s.label()} lacks {miss}")
                elif s.attrs == tuple(want_attrs) and s.kind not in ("add", "store"):
                    problems.append((f"sink-kind:{sc.name}", f"<{sc.name}>: {s.label()}(..) does not add to the object under construction", s.node))
                elif s.kind in ("add", "remove", "store"):
                    problems.append((f"foreign-sink:{sc.name}", f"<{sc.name}>: {s.label()} is written although the form is not of that kind", s.node))
            if not good or not R.always_passes(sc, good):
                tgt = "the returned value" if "returns" in ex else ".".join(("<root>",) + tuple(want_attrs)) + " (add)"
                problems.append((f"sink:{sc.name}", f"a node of the form <{sc.name}> does not reach {tgt} with its parts in place on every accepting path"
                                 + (f": {'; '.join(notes[:2])}" if notes else ""), None))
            if ex.get("nested_result") and good:
                # the nested formula is what the recursive call RETURNS: then every normal exit must return the object it was given
                p = model.p
                for s in sinks:
                    if s.value is None or not any(o == "self" and steps == (f"call:{f.name}",) for o, steps in F.of(s.value)):
                        continue
                    bad_exit = None
                    for n_, _l in g.pred[g.exit]:
                        st = g.stmt[n_]
                        if isinstance(st, ast.Return) and st.value is not None:
                            tr_ = p.trace(st.value)
                            if tr_ and all(len(x) == 1 and x[0] in roots for x in tr_):
                                continue
                        bad_exit = st
                        break
                    if bad_exit is not None or not g.pred[g.exit]:
                        problems.append((f"nested-result:{sc.name}", f"<{sc.name}>: the nested formula stored is the result of the recursive call, but the function does not "
                                         f"return the object it fills on every exit ({unparse(bad_exit, 40) if bad_exit is not None else 'falls off the end'}): None is stored", bad_exit))
                    break
            for callee, flows0 in ex.get("sites", []):
                hits = set()
                lacks = []
                for c in calls:
                    flows = flows0
                    if callee == RECURSION:
                        # the descent: a call of the anchor itself or of a method of its class that the engine left as a call; its
                        # parameters are told apart by what the CALLEE does with them (the list it walks / anything else), not by name
                        alts = _descent_params(repo, f, c)
                        if alts is None:
                            continue
                        flows = [(o, [alts.get(s, s) if isinstance(s, str) else s for s in steps]) for o, steps in flows0]
                    if callee == RECURSION or callee_name(c) == callee:
                        miss = _flow_ok(F, c, flows)
                        if not miss:
                            hits.add(g.node_containing(c))
                        else:
                            lacks.append(miss)
                if not hits or not R.always_passes(sc, hits):
                    problems.append((f"site:{callee}:{sc.name}", f"<{sc.name}>: no call of {callee} with {lacks[0] if lacks else 'the parts of the node'} on every accepting path", None))
        if problems:
            for role, text, node in problems[:3]:
                r.fail(Finding(rid, f, role, text, node=node or loop))
        else:
            r.ok({"scenario": sc.name, "accepted": True, "sink": list(ex["sink"][0]) if "sink" in ex else "return"})
    r.require_sites(len(scenarios))
    return r


def rule_walk(repo: Repo, rid: str, specs: List[str]) -> RuleResult:
    r = RuleResult(rid, "the walk over the nodes of a parsed list visits every node: no turn ends the loop (break / return)",
                   "no conjunct / effect / declaration is dropped")
    for spec in specs:
        f, loop, _tr, model, R = _node_model(repo, spec)
        r.site(f"{f.qn} [node loop]")
        src_pos = {_source_pos(x) for x in _tr}
        if not src_pos <= {(), ("1:",)}:
            r.fail(Finding(rid, f, "walk-source", f"the loop over the parsed nodes iterates {sorted(map(_pos_text, src_pos))} of the list it was given "
                           f"(expected: the list, or what follows its checked head): leading nodes are skipped", node=loop))
        if L.leaves_loop_early(model.G, {}, loop):
            r.fail(Finding(rid, f, "walk-left-early", "one turn of the loop over the parsed nodes can end the loop (break / return): the nodes "
                           "after it are dropped silently", node=loop))
        else:
            r.ok({"function": f.qn, "loop": unparse(loop.iter, 40), "left_early": False})
    r.require_sites(len(specs))
    return r


def rule_defaults(repo: Repo, rid: str = "C01.defaults") -> RuleResult:
    """a domain text may leave out :types / :constants / :predicates / :functions: the fields of the fresh Domain that parse_domain READS
    (hands to the section parsers, indexes) exist from the constructor on, on every path of it"""
    r = RuleResult(rid, "every field of the new Domain that parse_domain reads is set by the constructor on every path",
                   "a domain without a :types / :constants / :predicates / :functions section is parsed (absent section = empty declaration)")
    f = L.fn(repo, "DomainParser.parse_domain")
    p = L.prov(repo, f)
    read: Dict[str, ast.AST] = {}
    classes: Set[str] = set()
    for n in ast.walk(f.node):
        if isinstance(n, ast.Attribute) and isinstance(n.ctx, ast.Load):
            try:
                tr = p.trace(n.value)
            except (KeyError, RecursionError):
                continue
            fresh = {x[0] for x in tr if len(x) == 1 and x[0].startswith("fresh:")}
            if len(fresh) == 1 and all(len(x) == 1 or x[0] == next(iter(fresh)) for x in tr):
                cls = next(iter(fresh))[6:]
                if cls in repo.classes and repo.find_method(cls, n.attr) is None and not repo.is_property(cls, n.attr):
                    classes.add(cls)
                    read.setdefault(f"{cls}.{n.attr}", n)
    # the fresh object handed to a handler that is a VALUE (table of bound methods, `handler(domain, section)`): the reads are in the
    # private methods of the class that the function mentions as values, on the parameter at the position the object is passed at
    if f.cls:
        handed: Set[Tuple[int, str]] = set()
        for c in L.calls_in(f.node):
            if isinstance(c.func, ast.Name) or (isinstance(c.func, ast.Subscript)):
                for i, a in enumerate(c.args):
                    try:
                        tr = p.trace(a)
                    except (KeyError, RecursionError):
                        continue
                    fr = {x[0] for x in tr if len(x) == 1 and x[0].startswith("fresh:")}
                    if len(fr) == 1 and all(len(x) == 1 or x[0] == next(iter(fr)) for x in tr) and next(iter(fr))[6:] in repo.classes:
                        handed.add((i, next(iter(fr))[6:]))
        if handed:
            pm = L.parents_of(f)
            handlers: Set[str] = set()
            for n in ast.walk(f.node):
                if isinstance(n, ast.Attribute) and isinstance(n.ctx, ast.Load) and isinstance(n.value, ast.Name) and n.value.id in (f.self_name, f.cls) \
                        and n.attr.startswith("_") and not n.attr.startswith("__"):
                    par = pm.get(n)
                    if isinstance(par, ast.Call) and par.func is n:
                        continue
                    if repo.find_method(f.cls, n.attr) is not None:
                        handlers.add(n.attr)
            for hn in sorted(handlers):
                hm0 = repo.find_method(f.cls, hn)
                try:
                    hm = L.fn(repo, f"{f.cls}.{hn}")
                except AnalysisError:
                    continue
                hp = L.prov(repo, hm)
                params = [x for x in hm.params if not (hm0.is_method and x == hm.self_name)]
                for i, cls in handed:
                    if i >= len(params):
                        continue
                    root = (f"param:{params[i]}",)
                    for n in ast.walk(hm.node):
                        if isinstance(n, ast.Attribute) and isinstance(n.ctx, ast.Load):
                            try:
                                tr = hp.trace(n.value)
                            except (KeyError, RecursionError):
                                continue
                            if tr == {root} and repo.find_method(cls, n.attr) is None and not repo.is_property(cls, n.attr):
                                classes.add(cls)
                                read.setdefault(f"{cls}.{n.attr}", n)
    if not read:
        # the idiom by which the sections reach the Domain is not one the clause follows: not decided (recorded, silent)
        r.site(f"{f.qn} [reads of the fresh Domain not located]")
        r.notes.append("C01.defaults not decided: no read of a field of the freshly constructed Domain was located in parse_domain or in handlers it mentions")
        r.ok({"decided": False})
        return r
    for key, node in sorted(read.items()):
        cls, attr = key.split(".", 1)
        r.site(f"{f.qn} reads {key}")
        init = repo.find_method(cls, "__init__")
        ok = False
        if init is not None and getattr(init, "node", None) is not None:
            fi = L.fn(repo, f"{cls}.__init__") if repo.func_opt(f"{cls}.__init__") is not None else init
            g = C.cfg_of(fi.node)
            selfn = fi.params[0] if fi.params else "self"
            setters = set()
            for n_ in g.nodes():
                st = g.stmt[n_]
                tg = st.targets if isinstance(st, ast.Assign) else [st.target] if isinstance(st, (ast.AnnAssign, ast.AugAssign)) and getattr(st, "value", None) is not None else []
                for t in tg:
                    for x in ([t] if not isinstance(t, (ast.Tuple, ast.List)) else t.elts):
                        if isinstance(x, ast.Attribute) and x.attr == attr and isinstance(x.value, ast.Name) and x.value.id in L.aliases(fi, {selfn}):
                            setters.add(n_)
                if isinstance(st, ast.Expr) and isinstance(st.value, ast.Call) and callee_name(st.value) == "setattr" and len(st.value.args) == 3 \
                        and isinstance(st.value.args[1], ast.Constant) and st.value.args[1].value == attr:
                    setters.add(n_)
            ok = bool(setters) and g.exit not in C.reachable_from(g, g.entry, avoid=setters)
        if not ok:
            # a class-level default (dataclass field, plain class attribute)
            ci = repo.classes.get(cls)
            for b in getattr(getattr(ci, "node", None), "body", []) or []:
                if isinstance(b, ast.AnnAssign) and b.value is not None and isinstance(b.target, ast.Name) and b.target.id == attr:
                    ok = True
                if isinstance(b, ast.Assign) and any(isinstance(t, ast.Name) and t.id == attr for t in b.targets):
                    ok = True
        if ok:
            r.ok({"field": key, "set_by_constructor": True})
        else:
            r.fail(Finding(rid, f, f"unset-field:{key}", f"parse_domain reads {key} of the Domain it has just constructed, but {cls}.__init__ does not set it on every "
                           f"path: a domain text without the section that fills it ends in AttributeError", node=node))
    r.require_sites(3)
    return r


def rule_trailing(repo: Repo, rid: str, specs: List[str]) -> RuleResult:
    """the names collected after the last '- type' of a dash-grouped list: when that group is NOT empty, every way from the end of the walk
    to the function's exit stores its names (a statement that hands an element of the group to a store / call) or raises"""
    r = RuleResult(rid, "a non-empty trailing group (names after the last '- type') is stored or rejected on every path after the walk",
                   "the parsed declarations are exactly the declared names (untyped parameters / constants / types keep their place)")
    for spec in specs:
        f = L.fn(repo, spec)
        g = C.cfg_of(f.node)
        p = L.prov(repo, f)
        accs: Dict[str, int] = {}
        for c in L.calls_in(f.node):
            if isinstance(c.func, ast.Attribute) and c.func.attr == "append" and isinstance(c.func.value, ast.Name):
                n = g.node_containing(c)
                if n is not None and g.loop_of.get(n) is not None:
                    top = g.loop_of[n]
                    while g.loop_of.get(top) is not None:
                        top = g.loop_of[top]
                    accs[c.func.value.id] = top
        if not accs:
            raise AnalysisError(f"{spec}: token accumulator not recognised (dash-grouped list idiom changed)")
        for acc, top in sorted(accs.items()):
            r.site(f"{f.qn} [{acc}]")
            names = L.aliases(f, {acc})
            marks = tuple(f"in:append@{x}" for x in names)

            def holds_element(e) -> bool:
                try:
                    tr = p.trace(e, keys=True)
                except (KeyError, RecursionError):
                    return False
                return any(any(s in marks for s in x) for x in tr)

            inloop = {g.node_of(x) for x in ast.walk(g.stmt[top]) if isinstance(x, (ast.stmt, ast.ExceptHandler)) and x is not g.stmt[top]} - {None}
            flush: Set[int] = set()
            for n in g.nodes():
                if n in inloop or n == top:
                    continue
                st = g.stmt[n]
                if st is None:
                    continue
                hit = False
                if isinstance(st, (ast.Assign, ast.AugAssign, ast.AnnAssign)):
                    tg = st.targets if isinstance(st, ast.Assign) else [st.target]
                    for t in tg:
                        if isinstance(t, ast.Subscript) and (holds_element(t.slice) or (getattr(st, "value", None) is not None and holds_element(st.value))):
                            hit = True
                        if isinstance(t, ast.Attribute) and getattr(st, "value", None) is not None and holds_element(st.value):
                            hit = True
                h = C.header(st)
                if not hit and h is not None and not isinstance(st, (ast.If, ast.While, ast.Assert, ast.For)):
                    for c in L.calls_in(h):
                        if L.is_logging_call(c) or (isinstance(c.func, ast.Name) and c.func.id in D.NEUTRAL_CALLS | {"any", "all", "sorted", "list", "set", "tuple"}):
                            continue
                        if isinstance(c.func, ast.Attribute) and isinstance(c.func.value, ast.Name) and c.func.value.id in names:
                            continue        # a call ON the group (clear, copy ..) does not store it anywhere
                        if any(holds_element(a) for a in list(c.args) + [k.value for k in c.keywords]):
                            hit = True
                if not hit and h is not None and not isinstance(st, (ast.If, ast.While, ast.Assert, ast.For)):
                    # {n: T for n in GROUP} / [.. for n in GROUP] as (part of) a stored / returned / passed value
                    for x in ast.walk(h):
                        if isinstance(x, (ast.ListComp, ast.SetComp, ast.DictComp, ast.GeneratorExp)) and any(
                                isinstance(gen.iter, ast.Name) and gen.iter.id in names for gen in x.generators):
                            hit = True
                if hit:
                    flush.add(n)
                    # the statement sits in a loop over the group: with a non-empty group the loop is entered
                    lp = g.loop_of.get(n)
                    while lp is not None and lp not in inloop and lp != top:
                        st_lp = g.stmt[lp]
                        if isinstance(st_lp, ast.For) and isinstance(st_lp.iter, ast.Name) and st_lp.iter.id in names:
                            flush.add(lp)
                        lp = g.loop_of.get(lp)

            def matcher(e):
                if isinstance(e, ast.Name) and isinstance(e.ctx, ast.Load) and e.id in names:
                    return "!empty"
                if isinstance(e, ast.Compare) and len(e.ops) == 1:
                    l, r_, op = e.left, e.comparators[0], type(e.ops[0])
                    if isinstance(l, ast.Call) and isinstance(l.func, ast.Name) and l.func.id == "len" and len(l.args) == 1 and isinstance(l.args[0], ast.Name) \
                            and l.args[0].id in names and isinstance(r_, ast.Constant) and isinstance(r_.value, int):
                        if (op, r_.value) in ((ast.Eq, 0), (ast.Lt, 1), (ast.LtE, 0)):
                            return "empty"
                        if (op, r_.value) in ((ast.NotEq, 0), (ast.Gt, 0), (ast.GtE, 1)):
                            return "!empty"
                    if isinstance(l, ast.Name) and l.id in names and isinstance(r_, (ast.List, ast.Tuple)) and not r_.elts and op in (ast.Eq, ast.NotEq):
                        return "empty" if op is ast.Eq else "!empty"
                return None

            G = L.Guards(f, matcher)
            feasible = G.reach({})      # sentinel / constant tests decided: a jump out of the walk on an infeasible branch is no way out
            seeds = {m for m, l in g.succ[top] if l != "iter"} | {m for n_ in inloop if n_ in feasible for m, _l in g.succ[n_] if m not in inloop and m != top}
            escapes = False
            for s_ in seeds:
                if s_ in flush or s_ == g.raise_:
                    continue
                if s_ == g.exit or g.exit in G.reach({"empty": False}, avoid=flush, start=s_):
                    escapes = True
            # leaving the function from inside the walk (return in the loop) is judged by C01.walk / C01.typedlist
            if escapes:
                r.fail(Finding(rid, f, "trailing-group-lost", "with names collected after the last '- type' (a non-empty trailing group) the function can be left "
                               "without storing or rejecting them: trailing untyped names are dropped", node=g.stmt[top]))
            else:
                r.ok({"function": f.qn, "flush_statements": len(flush)})
    r.require_sites(len(specs))
    return r


def new_rules(repo: Repo) -> List[RuleResult]:
    return [
        rule_walk(repo, "C01.walk", ["PreconditionsParser.parse", "EffectsParser.parse"]),
        rule_scenarios(repo, "C01.forms.precondition", "PreconditionsParser.parse", PRECONDITION_SCENARIOS, "precondition nodes"),
        rule_scenarios(repo, "C01.forms.effect", "EffectsParser.parse", EFFECT_SCENARIOS, "effect nodes"),
        rule_scenarios(repo, "C01.forms.body", "DomainParser.parse_preconditions", PRECONDITION_BODY_SCENARIOS, "the :precondition body", mode="function"),
        rule_scenarios(repo, "C01.forms.expression", "models.numerical_expression::construct_expression_tree", EXPRESSION_SCENARIOS, "numeric expressions", mode="function"),
        rule_scenarios(repo, "C01.forms.literal", "lisp_parsers.parsing_utils::parse_untyped_predicate", LITERAL_SCENARIOS, "literals of action bodies", mode="function"),
        rule_defaults(repo),
        rule_trailing(repo, "C01.trailing", ["DomainParser.parse_types", "DomainParser.parse_constants", "lisp_parsers.parsing_utils::parse_signature"]),
        rule_scenarios(repo, "C01.forms.section", "DomainParser.parse_domain", SECTION_SCENARIOS, "domain sections", extra_roots=("fresh:Domain",), inline_public=False,
                       table_dispatch_undecided=True),
    ]


def rules(repo: Repo, tier: str) -> List[RuleResult]:
    U.fold_table_updates(repo, ("lisp_parsers.domain_parser", "lisp_parsers.preconditions_parser", "lisp_parsers.effects_parser"))
    return [
        rule_typedlist(repo, "C01.typedlist", ["lisp_parsers.parsing_utils::parse_signature", "DomainParser.parse_constants"]),
        rule_nodrop(repo, "C01.nodrop", PARSER_MODS, 2, anchors=["EffectsParser.parse", "PreconditionsParser.parse"]),
        rule_headstrip(repo, "C01.headstrip", ("lisp_parsers.domain_parser", "lisp_parsers.preconditions_parser", "lisp_parsers.effects_parser"), 6),
        rule_polarity(repo),
        rule_sections(repo),
        rule_arity(repo),
        c12.rule_tables(repo, "C01.tables"),
        rule_dupkeys(repo, "C01.dupkeys", ["lisp_parsers.parsing_utils::parse_untyped_predicate", "models.numerical_expression::construct_expression_tree"]),
        rule_order(repo),
        rule_optables(repo),
        c12.rule_order(repo, "C01.operands"),
        rule_leftover(repo, "C01.leftover", ["DomainParser.parse_types", "DomainParser.parse_constants", "lisp_parsers.parsing_utils::parse_signature"]),
    ] + _type_rules(repo) + new_rules(repo)


def _type_rules(repo: Repo) -> List[RuleResult]:
    """the declared types are part of C01 ('multi-level type trees in any declaration order'): the parse_types rules of C06"""
    from . import c06
    return [rule_typedlist(repo, "C01.types.typedlist", ["DomainParser.parse_types"], lookup_required=False),
            c06.rule_closure(repo).as_rule("C01.types.closure"), c06.rule_identity(repo).as_rule("C01.types.identity"),
            c06.rule_parentlink(repo).as_rule("C01.types.parentlink"), c06.rule_root(repo).as_rule("C01.types.root"),
            c06.rule_grouplink(repo, "C01.types.grouplink"), c06.rule_tokenwalk(repo, "C01.types.tokenwalk")]
