"""C07 -- queries and transitions are pure: inputs and earlier results are never modified."""
from __future__ import annotations

import ast
from typing import Dict, List, Optional, Set, Tuple

from .. import lib as L
from ..core import AnalysisError, FuncInfo, Repo
from ..effects import Effects, effects, fmt_atom, norm_path
from ..report import Finding, RuleResult

EXPLANATION = (
    "Interprocedural effect analysis (E5): for every function a summary MUT(f) of the heap locations it may write, as access "
    "paths rooted at a parameter, at self or at a module-level object, computed to a fixpoint over the resolved call graph with "
    "argument binding; local names are resolved through reaching definitions, fields of freshly built objects are tracked so that "
    "aliases such as tmp.signature = self.action.signature are followed. C07.write: no function outside the mutators-by-contract "
    "writes below a field of self that holds a constructor argument (the domain, the action schema, a state) and no public entry "
    "point writes below one of its parameters. C07.global: no function writes into a module-level mutable object or a mutable "
    "default argument (shared by every instance). C07.escape: an object owned by an operator / grounded effect that the owner "
    "later mutates in place is never stored into the state handed to it. C07.evalstate: in GroundedEffect.apply every fluent map that is "
    "handed to a computation derives, under the valuation 'a pre-state is given', from the pre-state parameter only (the successor under "
    "construction is write-only, so the effect groups of one operator -- applied in set order -- cannot see each other's writes and "
    "repeating a call gives the same successor) and, under 'no pre-state', from the only state there is; local names are resolved through "
    "the definitions that reach along the edges the valuation leaves open. The verdict is independent of the call history, which is "
    "what the property quantifies over; with no library write to shared objects the thread-interleaving clause follows."
)
UNDECIDED = ("writes through values of UNKNOWN provenance (counted in evidence); mutation by user code through aliases that remain "
             "(e.g. State(...) sharing the problem's initial-fact dict: aliasing without a library write); writes performed inside "
             "third-party objects (anytree, sympy)")

# methods whose purpose is to modify their receiver: self-rooted writes inside them are the contract
MUTATOR_NAMES = {
    "__init__", "add_condition", "remove_condition", "_remove_condition", "add_equality_condition", "change_signature",
    "set_value", "locate_and_replace", "add_component", "add_problem_objects", "_unique_add_predicate",
    "_unique_add_numeric_expression",
}
# (function, parameter) pairs whose contract is to write that parameter
CONTRACT_PARAMS = {
    ("GroundedEffect.apply", "state"): "applies the effect to the successor handed to it",
    ("GroundedEffect._apply_discrete_effects", "next_state_predicates"): "writes the successor's predicate map",
    ("Operator._apply_universal_effects", "current_state"): "writes the successor under construction",
    ("fix_grounded_predicate_types", "predicate_signature"): "fills the fresh signature built by ground_predicate",
    ("PDDLTokenizer.read_from_tokens", "tokens"): "consumes the token deque",
    ("DomainParser.parse_preconditions", "new_action"): "builder: fills the action under construction",
    ("DomainParser.parse_effects", "new_action"): "builder: fills the action under construction",
    ("EffectsParser.parse", "new_action"): "builder: fills the action under construction",
    ("PreconditionsParser.parse", "precondition_root"): "builder: fills the precondition under construction",
    ("GroundedPrecondition._ground", "grounded_conditions"): "builder: fills the grounded precondition",
    ("MultiAgentDomainsConverter._add_dummy_actions", "domain"): "builder: extends the combined domain under construction",
    ("PlanConverter._create_joint_actions", "plan_actions"): "consumes the freshly extracted action list",
    ("increase", "value_to_increase"): "numeric assignment primitive",
    ("decrease", "value_to_decrease"): "numeric assignment primitive",
    ("assign", "assigned_variable"): "numeric assignment primitive",
    ("scale_up", "value_to_scale"): "numeric assignment primitive",
    ("scale_down", "value_to_scale"): "numeric assignment primitive",
    ("set_expression_value", "expression_node"): "loads state values into the (grounded, owned) expression tree",
    ("evaluate_expression", "expression_tree"): "assignment operators write the target fluent of the tree",
    ("Precondition._remove_condition", "searched_condition"): "mutator by contract",
    ("GroundedEffect._update_single_numeric_expression", "numeric_expression"): "evaluates the grounded (owned) expression tree",
    ("GroundedPrecondition._validate_numeric_expression_hold", "condition"): "loads state values into the grounded (owned) tree",
}
ENTRY_PACKAGES = ("models", "exporters", "multi_agent", "lisp_parsers")


def _short(f: FuncInfo) -> str:
    return f.qn.split("::", 1)[1]


def _is_entry(f: FuncInfo) -> bool:
    if f.mod.short.split(".")[0] not in ENTRY_PACKAGES:
        return False
    n = f.name
    return not n.startswith("_") or (n.startswith("__") and n.endswith("__"))


def _reportable_in(eff: Effects, f: FuncInfo, m: tuple) -> bool:
    """would this write be reported as a finding in f itself?"""
    root, path, kind = m
    path = norm_path(path)
    if root[0] == "global":
        return True
    if root[0] == "self" and f.cls and path and f.name not in MUTATOR_NAMES:
        return bool({"INPUT", "GLOBAL"} & eff.field_kinds(f.cls, path[0]))
    if root[0] == "param" and _is_entry(f) and (_short(f), root[1]) not in CONTRACT_PARAMS and \
            not (f.name in MUTATOR_NAMES and f.name != "__init__"):
        return True
    return False


def _passthrough(eff: Effects, site: tuple) -> bool:
    """the write arrives from a callee in which it is already reported (the callee is the root cause)"""
    _ln, via, _text, origin = site
    if via is None or origin is None:
        return False
    cs = eff.sums.get(via)
    return cs is not None and _reportable_in(eff, cs.f, origin)


def rule_write(repo: Repo, rid: str = "C07.write", floor: int = 40, only=None) -> RuleResult:
    r = RuleResult(rid, "no write below an input-holding field of self, below a parameter of a public entry point, or into a module global",
                   "inputs (domain, action schemas, states) keep their value")
    eff = effects(repo)
    unknown = 0
    entries = 0
    for s in eff.sums.values():
        f = s.f
        if only is not None and not only(f):
            continue
        unknown += len(s.unknown_muts)
        short = _short(f)
        entry = _is_entry(f)
        if entry:
            entries += 1
            r.site(f.qn)
        judged = 0
        for m in sorted(s.mut, key=str):
            root, path, kind = m
            path = norm_path(path)
            sites = sorted(s.mutsites.get(m, ()), key=str)
            rc_sites = [x for x in sites if not _passthrough(eff, x)]
            if root[0] == "global":
                continue  # C07.global
            why = None
            if root[0] == "self":
                if f.name in MUTATOR_NAMES or not f.cls or not path:
                    continue
                kinds = eff.field_kinds(f.cls, path[0])
                if not ({"INPUT", "GLOBAL"} & kinds):
                    continue
                if not rc_sites:
                    continue
                why = f"{f.cls}.{path[0]} holds a constructor argument ({'/'.join(sorted(kinds))})"
                role = "write:self." + ".".join(path)
            elif root[0] == "param":
                if not entry:
                    continue
                if (short, root[1]) in CONTRACT_PARAMS:
                    continue
                if f.name in MUTATOR_NAMES and f.name != "__init__":
                    continue
                if not rc_sites:
                    continue
                why = f"parameter '{root[1]}' of a public entry point"
                role = f"write:param:{root[1]}" + ("." + ".".join(path) if path else "")
            else:
                continue
            judged += 1
            ln, via, text, _o = rc_sites[0]
            node = ast.parse("0").body[0]
            node.lineno = ln
            r.fail(Finding(rid, f, role, f"writes {fmt_atom((root, path))} <{kind}> -- {why}; "
                           f"{'direct: ' + text if via is None else 'by calling ' + via + ' at: ' + text}", node=node),
                   {"function": f.qn, "write": fmt_atom((root, path)), "kind": kind})
        if entry and judged == 0:
            r.ok({"entry": f.qn, "writes_to_inputs": 0, "summary_size": len(s.mut)})
    r.notes.append(f"effect summaries: {len(eff.sums)} functions, fixpoint in {eff.rounds} rounds; writes through UNKNOWN provenance: {unknown}")
    r.notes.append("mutators by contract: " + ", ".join(sorted(MUTATOR_NAMES)))
    r.notes.append("contract parameters: " + "; ".join(f"{k[0]}({k[1]}): {v}" for k, v in sorted(CONTRACT_PARAMS.items())))
    r.require_sites(floor)
    return r


def _callee_reports_param(eff: Effects, qn: str) -> bool:
    return True


def rule_global(repo: Repo, rid: str = "C07.global", floor: int = 5) -> RuleResult:
    r = RuleResult(rid, "no function writes into a module-level mutable object or a mutable default argument",
                   "independent domains and problems share no mutable state")
    eff = effects(repo)
    aliased = []
    # fields initialised by reference from a module global / mutable default
    for cname, ci in repo.classes.items():
        for fld in repo.declared_fields(cname):
            kinds = eff.field_kinds(cname, fld)
            if "GLOBAL" in kinds:
                aliased.append(f"{cname}.{fld}")
                r.site(f"{cname}.{fld} [aliases a module-level object]")
    found = set()
    for s in eff.sums.values():
        f = s.f
        for m in sorted(s.mut, key=str):
            root, path, kind = m
            if root[0] != "global":
                continue
            sites = sorted(s.mutsites.get(m, ()), key=str)
            rc = [x for x in sites if not _passthrough(eff, x)]
            if not rc:
                continue
            ln, via, text, _o = rc[0]
            node = ast.parse("0").body[0]
            node.lineno = ln
            r.site(L.site(f, None, f"write to {root[1]}"))
            found.add(root[1])
            r.fail(Finding(rid, f, f"write:global:{root[1]}", f"writes into module-level object {root[1]}{''.join('.' + p for p in path)} <{kind}> "
                           f"({'direct: ' + text if via is None else 'by calling ' + via + ' at: ' + text}): shared by every later instance", node=node))
    for a in aliased:
        r.ok({"aliased_field": a, "note": "aliases a shared object; judged by whether any function writes through it"})
    mods = 0
    for m in repo.mods.values():
        for name, (kind, node) in m.defs.items():
            if kind == "const" and isinstance(node, (ast.Dict, ast.List, ast.Set)):
                mods += 1
                r.site(f"{m.short}.{name} [module-level mutable]")
                if name not in found:
                    r.ok({"global": f"{m.short}.{name}", "written_by": []})
    r.require_sites(floor)
    return r


def rule_escape(repo: Repo, rid: str = "C07.escape", floor: int = 2) -> RuleResult:
    r = RuleResult(rid, "an object that its owner later mutates in place is not stored into a state handed to the owner",
                   "states returned earlier keep their value when the same operator is applied again")
    eff = effects(repo)
    n_stores = 0
    for s in eff.sums.values():
        f = s.f
        if not f.cls:
            continue
        # all in-place writes by methods of the class
        class_muts = set()
        for c in repo.mro(f.cls):
            ci = repo.classes[c]
            for mn in ci.methods:
                cs = eff.sums.get(f"{repo.mods[ci.mod].short}::{c}.{mn}")
                if cs:
                    class_muts |= {m for m in cs.mut if m[0][0] == "self"}
        for cont, value, _ln in sorted(s.stores, key=str):
            if cont[0][0] != "param":
                continue
            n_stores += 1
            r.site(f"{f.qn}: {fmt_atom(value)} -> {fmt_atom(cont)}")
            if value[0][0] != "self" or not value[1]:
                r.ok({"function": f.qn, "stored": fmt_atom(value), "into": fmt_atom(cont)})
                continue
            vp = norm_path(value[1])
            hit = [m for m in class_muts if norm_path(m[1])[:len(vp)] == vp and m[2].startswith("attr:")]
            if hit:
                r.fail(Finding(rid, f, f"escape:{fmt_atom(value)}->{fmt_atom(cont)}",
                               f"stores its own object {fmt_atom(value)} into {fmt_atom(cont)} and later rewrites it in place "
                               f"({hit[0][2]}): the state returned by an earlier call changes when the operator is applied again"))
            else:
                r.ok({"function": f.qn, "stored": fmt_atom(value), "into": fmt_atom(cont), "owner_mutates_it": False})
    r.require_sites(floor)
    return r


# C07.evalstate: the effect group that writes the successor; (written state, optional pre-state) are its two parameters.
# Reason: GroundedEffect objects of one operator are applied in SET order; the result is a function of the call only when every group
# reads the fluents of the state before the action and only writes the successor.
EVALSTATE_ANCHOR = "GroundedEffect.apply"
FLUENT_MAP_FIELD = "state_fluents"      # the field of a State that holds the numeric fluents


def rule_evalstate(repo: Repo, rid: str = "C07.evalstate") -> RuleResult:
    """reads of a fluent map that feed a computation (an argument of a call) inside the effect group: with a pre-state handed in they
    come from the pre-state (the successor under construction is write-only), without one from the only state there is.  Decided by
    the provenance of every such argument under the two valuations of `<pre-state> is (not) None`."""
    from .. import cfg as C
    r = RuleResult(rid, f"{EVALSTATE_ANCHOR}: when a pre-state is given, fluent values are read from it and never from the successor being written",
                   "the result of applying an operator does not depend on the (set) order in which its effect groups are applied")
    f = L.fn(repo, EVALSTATE_ANCHOR)
    p = L.prov(repo, f)
    params = [x for x in f.params if x != f.self_name]
    a = f.node.args
    pos = a.posonlyargs + a.args
    defaults = dict(zip([x.arg for x in pos[len(pos) - len(a.defaults):]], a.defaults))
    defaults.update({k.arg: d for k, d in zip(a.kwonlyargs, a.kw_defaults) if d is not None})
    optional = [x for x in params if isinstance(defaults.get(x), ast.Constant) and defaults[x].value is None]
    required = [x for x in params if x not in defaults]
    if len(optional) != 1 or len(required) != 1:
        raise AnalysisError(f"{EVALSTATE_ANCHOR}: (written state, optional pre-state) parameters not recognised: {params}")
    pre, target = optional[0], required[0]

    def tr(e, under=None):
        try:
            return p.trace(e, under=under) if under is not None else p.trace(e)
        except (KeyError, RecursionError):
            return set()

    def matcher(e):
        if isinstance(e, ast.Compare) and len(e.ops) == 1:
            for x, y in ((e.left, e.comparators[0]), (e.comparators[0], e.left)):
                if isinstance(y, ast.Constant) and y.value is None and tr(x) == {(f"param:{pre}",)}:
                    if isinstance(e.ops[0], (ast.Is, ast.Eq)):
                        return "!given"
                    if isinstance(e.ops[0], (ast.IsNot, ast.NotEq)):
                        return "given"
        return None

    def is_env(paths) -> bool:
        return any(len(x) == 2 and x[1] == f"attr:{FLUENT_MAP_FIELD}" and x[0] in (f"param:{pre}", f"param:{target}") for x in paths)

    G = L.Guards(f, matcher)
    g = G.g
    rd = L.rd_of(f)

    def roots_under(e, valuation) -> Set[str]:
        """roots of the value of `e` under the valuation.  Local names are resolved through the definitions that reach the use along
        the edges the valuation leaves open only (`x = a; if given: x = b` is `b` when given) -- `Prov.trace(under=)` filters
        definitions by liveness of their node, not by being overwritten on every open path."""
        val, seen = G.under(valuation)
        edges: Set[Tuple[int, int]] = set()
        C.reach_under(g, val, edges=edges)
        preds: Dict[int, List[int]] = {}
        for a_, b_ in edges:
            preds.setdefault(b_, []).append(a_)

        def open_defs(at: int, name: str) -> Set[int]:
            allr = rd.defs_reaching(at, name)
            out, done, stack = set(), set(), list(preds.get(at, []))
            while stack:
                u = stack.pop()
                if u in done:
                    continue
                done.add(u)
                if u in allr:
                    out.add(u)
                    continue
                stack.extend(preds.get(u, []))
            return out

        def go(x, at: Optional[int], depth: int) -> Set[str]:
            if depth > 12:
                return {"?"}
            if isinstance(x, ast.Attribute):
                return go(x.value, at, depth + 1)
            if isinstance(x, ast.IfExp):
                tv = C.eval3(x.test, val)
                if tv is not None:
                    return go(x.body if tv else x.orelse, at, depth + 1)
                return go(x.body, at, depth + 1) | go(x.orelse, at, depth + 1)
            if isinstance(x, ast.Name) and at is not None and rd.defs_reaching(at, x.id):
                out: Set[str] = set()
                for d in open_defs(at, x.id):
                    st = g.stmt[d]
                    if d == g.entry:
                        out.add(f"param:{x.id}")
                    elif isinstance(st, ast.Assign) and len(st.targets) == 1 and isinstance(st.targets[0], ast.Name):
                        out |= go(st.value, d, depth + 1)
                    elif isinstance(st, ast.AnnAssign) and st.value is not None and isinstance(st.target, ast.Name):
                        out |= go(st.value, d, depth + 1)
                    else:
                        return {y[0] for y in tr(x, (val, seen))}
                if out:
                    return out
            return {y[0] for y in tr(x, (val, seen))}

        return go(e, g.node_containing(e), 0)

    reads = []
    for c in L.calls_in(f.node):
        for arg in list(c.args) + [k.value for k in c.keywords]:
            if is_env(tr(arg)):
                reads.append((c, arg))
    r.site(f.qn + " [fluent values read by the effect group]")
    if not reads:
        r.ok({"reads_of_a_fluent_map": 0, "note": "no fluent map is handed to a computation: nothing to decide"})
        r.require_sites(1)
        return r
    want = {True: f"param:{pre}", False: f"param:{target}"}
    for c, arg in reads:
        r.site(L.site(f, c, "fluent environment"))
        if "given" not in G.atoms_seen:
            roots = {x[0] for x in tr(arg)}
            if roots == {f"param:{target}"}:
                r.fail(Finding(rid, f, "evaluation-state:pre-state-ignored", f"fluent values are read from the state being written ('{target}') whether or "
                               f"not the pre-state '{pre}' is given: effect groups see each other's writes", node=c))
            else:
                r.ok({"call": L.site(f, c), "note": f"choice between '{pre}' and '{target}' is not a None test: undecided"})
            continue
        bad = []
        for given in (True, False):
            seen = G.reach({"given": given})
            n = G.g.node_containing(c)
            if n is None or n not in seen:
                continue
            got = roots_under(arg, {"given": given})
            if got and got != {want[given]}:
                bad.append((given, sorted(got)))
        if not bad:
            r.ok({"pre_state_given": f"reads {pre}.{FLUENT_MAP_FIELD}", "pre_state_absent": f"reads {target}.{FLUENT_MAP_FIELD}"})
        for given, got in bad:
            r.fail(Finding(rid, f, f"evaluation-state:{'given' if given else 'absent'}",
                           f"with the pre-state {'given' if given else 'absent (None)'} the fluent values are read from {got} instead of "
                           f"{want[given]}: " + ("effect groups applied earlier (set order) are visible to later ones, repeating the call gives "
                                                 "different successors" if given else "the absent pre-state is dereferenced"), node=c))
    r.require_sites(2)
    return r


def rules(repo: Repo, tier: str) -> List[RuleResult]:
    from . import c14, c19
    return [rule_write(repo), rule_global(repo), rule_escape(repo), c14.rule_copy(repo, "C07.copyfresh"), c19.rule_cache(repo, "C07.cache", manual=True, objects=True), _c20().rule_freshleaf(repo, "C07.freshleaf"),
            rule_evalstate(repo)]


def _c20():
    from . import c20
    return c20
