"""C16 -- a joint action acts like its members applied one after another."""
from __future__ import annotations

import ast
import itertools
from typing import List

from .. import cfg as C
from .. import lib as L
from ..core import AnalysisError, Repo, unparse
from ..prov import callee_name
from ..report import Finding, RuleResult
from . import c04

EXPLANATION = (
    "C16.guard: in apply_actions applicability of every member is asked on the original state parameter, effects are accumulated on "
    "its copy, the ValueError is reachable exactly for (not applicable and not allowed) -- finite valuation of the guard --, nop "
    "members are skipped before the schema lookup and the single-member shortcut passes the allow flag through. C16.thread: the "
    "multi-agent exporter threads states exactly like the single-agent one (def-use chains), one triplet per joint action, and "
    "export() writes one (operators: ...) line followed by the post-state per triplet. C16.objects: every Operator that the library "
    "itself applies is constructed with the problem objects, otherwise forall effects are silently skipped. C16.walk: in apply_actions the "
    "single-member shortcut is reachable for exactly one member (length tests evaluated for 0..9 members) and applies member 0, the walk over "
    "the members is never left early, every applied Operator is built from its own member (schema by the member's name from the domain table, "
    "the domain, the member's parameters) and members that passed the joint test are applied with the allow flag on. C16.default: the allow "
    "flag defaults to False wherever it is handed down. C16.step: create_multi_agent_triplet records one entry per member (NOPOperator for a "
    "nop, the member's Operator otherwise, on every path through one turn, walk never left early) and executes exactly the non-nop members "
    "(also through JointActionCall.operational_actions). C16.parse: parse_action_call searches the pattern in the line, every group becomes "
    "one ActionCall (token 0 = name, tokens 1.. = arguments) and all of them are returned."
)
UNDECIDED = "permutation independence of the accumulated result; non-interference of the members (assumed by the property)"


def _is_nop_name(c, p=None) -> bool:
    """the expression is the name of the nop action: NOP_ACTION, its literal value, or a module constant that holds it"""
    if isinstance(c, ast.Constant):
        return getattr(c, "const_name", "") == "NOP_ACTION" or c.value == "nop"
    if isinstance(c, ast.Name):
        if c.id == "NOP_ACTION":
            return True
        if p is not None:
            try:
                ok, v = p.repo.const_value(p.f.mod.name, c.id)
            except Exception:
                return False
            return bool(ok) and v == "nop"
    return False


def _matcher(e, p=None):
    if isinstance(e, ast.Name) and (L.is_param(p, e, "allow_inapplicable_actions") if p is not None else e.id == "allow_inapplicable_actions"):
        return "allow"
    if isinstance(e, ast.Call) and isinstance(e.func, ast.Attribute) and e.func.attr == "is_applicable":
        return "applicable"
    if isinstance(e, ast.Compare) and len(e.ops) == 1 and isinstance(e.left, ast.Call) and callee_name(e.left) == "len" \
            and isinstance(e.comparators[0], ast.Constant) and e.comparators[0].value == 1 and isinstance(e.ops[0], ast.Eq):
        return "single"
    if isinstance(e, ast.Compare) and len(e.ops) == 1 and isinstance(e.ops[0], (ast.Eq, ast.NotEq)):
        l, r_ = e.left, e.comparators[0]
        if isinstance(r_, ast.Attribute) and not isinstance(l, ast.Attribute):
            l, r_ = r_, l           # NOP_ACTION == m.name
        if isinstance(l, ast.Attribute) and l.attr == "name" and _is_nop_name(r_, p):
            return "nop" if isinstance(e.ops[0], ast.Eq) else "!nop"
    return None


def _refused_before(G, g, val, apply_call, tests, raises) -> bool:
    """validate-then-apply form: the applicability tests all sit in loops that end before the loop of this application starts, and under
    the valuation every turn of those loops raises -- a member with this valuation then never reaches the application"""
    mine = g.loop_of.get(g.node_containing(apply_call))
    loops = []
    for t in tests:
        n = g.node_containing(t)
        lp = g.loop_of.get(n) if n is not None else None
        if lp is None or lp == mine or not isinstance(g.stmt[lp], ast.For):
            return False
        loops.append(lp)
    seen = G.reach(val)
    return bool(loops) and all(lp in seen and L.must_pass_in_loop(G, val, g.stmt[lp], raises) for lp in loops)


def rule_guard(repo: Repo) -> RuleResult:
    r = RuleResult("C16.guard", "apply_actions: applicability on the original state, effects on its copy, refusal iff not applicable and not allowed, nop skipped",
                   "joint action = members applied one after the other; refused when a member is inapplicable")
    f = L.fn(repo, "multi_agent.common::apply_actions")
    p = L.prov(repo, f)
    G = L.Guards(f, lambda e: _matcher(e, p))
    g = G.g
    state = "current_state"
    if state not in f.params:
        raise AnalysisError("apply_actions: parameter 'current_state' not found")
    for c in L.calls_in(f.node):
        if callee_name(c) == "is_applicable" and isinstance(c.func, ast.Attribute):
            r.site(L.site(f, c, "applicability"))
            tr = p.trace(c.args[0]) if c.args else set()
            if tr and all(x == (f"param:{state}",) for x in tr):
                r.ok({"applicability_tested_on": "the original state parameter"})
            else:
                r.fail(Finding("C16.guard", f, "applicable-state", f"member applicability is tested on {sorted(tr)[:3]} instead of the state the joint action starts from", node=c))
    applies = [c for c in L.calls_in(f.node) if callee_name(c) == "apply" and isinstance(c.func, ast.Attribute)]
    ap = repo.func("Operator.apply")
    loop_applies = [c for c in applies if g.loop_of.get(g.node_containing(c)) is not None]
    short_applies = [c for c in applies if c not in loop_applies]
    for c in loop_applies:
        r.site(L.site(f, c, "accumulation"))
        st = L.arg_of(c, ap, "previous_state")
        tr = p.trace(st) if st is not None else set()
        init = [x for x in tr if "call:apply" not in x and not any(s.endswith(":apply") for s in x)]
        carried = [x for x in tr if x not in init]
        ok_init = bool(init) and all(x == (f"param:{state}", "call:copy") for x in init)
        ok_car = all(any(s == "call:apply" for s in x) or any(s.endswith(":apply") for s in x) for x in carried)
        if ok_init and ok_car:
            r.ok({"accumulates_on": "current_state.copy() / result of the previous member"})
        else:
            r.fail(Finding("C16.guard", f, "accumulate-state", f"effects are accumulated on {sorted(tr)[:3]}", node=c))
    for c in short_applies:
        r.site(L.site(f, c, "single-member shortcut"))
        st = L.arg_of(c, ap, "previous_state")
        al = L.arg_of(c, ap, "allow_inapplicable_actions")
        t1 = p.trace(st) if st is not None else set()
        t2 = p.trace(al) if al is not None else set()
        if t1 and all(x == (f"param:{state}",) for x in t1) and t2 and all(x == ("param:allow_inapplicable_actions",) for x in t2):
            r.ok({"shortcut": "Operator(...).apply(current_state, allow_inapplicable_actions=allow_inapplicable_actions)"})
        else:
            r.fail(Finding("C16.guard", f, "shortcut", f"the single-action shortcut applies to {sorted(t1)[:2]} with allow={sorted(t2)[:2]}", node=c))
    raises = [n for n in g.nodes() if g.kind[n] == "raise"]
    tests = [c for c in L.calls_in(f.node) if callee_name(c) == "is_applicable" and isinstance(c.func, ast.Attribute)]
    r.site(f.qn + " [refusal table]")
    table, bad = {}, []
    for app, allow in itertools.product([False, True], repeat=2):
        seen = G.reach({"applicable": app, "allow": allow, "single": False, "nop": False})
        raised = any(n in seen for n in raises)
        applied = any(g.node_containing(c) in seen and not _refused_before(G, g, {"applicable": app, "allow": allow, "single": False, "nop": False}, c, tests, raises)
                      for c in loop_applies)
        want = (not app) and (not allow)
        table[f"applicable={app},allow={allow}"] = {"raise": raised, "member_applied": applied}
        if raised != want or applied != (not want):
            bad.append((app, allow))
    if bad or not raises:
        r.fail(Finding("C16.guard", f, "refusal-table", f"refusal differs from (not applicable and not allow) for (applicable, allow) in {bad}"), table)
    else:
        r.ok(table)
    # nop members: nothing of the member is looked up or applied
    r.site(f.qn + " [nop]")
    seen = G.reach({"nop": True, "single": False})
    touched = [c for c in L.calls_in(f.node) if g.loop_of.get(g.node_containing(c)) is not None and g.node_containing(c) in seen
               and callee_name(c) in ("apply", "is_applicable", "Operator")]
    lookups = [n for n in ast.walk(f.node) if isinstance(n, ast.Subscript) and isinstance(n.value, ast.Attribute) and n.value.attr == "actions"
               and g.loop_of.get(g.node_containing(n)) is not None and g.node_containing(n) in seen]
    if "nop" not in G.atoms_seen:
        r.fail(Finding("C16.guard", f, "missing:nop-skip", "apply_actions has no test that skips nop members"))
    elif touched or lookups:
        r.fail(Finding("C16.guard", f, "nop-not-skipped", "a nop member still reaches the schema lookup / application"))
    else:
        r.ok({"nop_members": "skipped before the schema lookup"})
    # result: the accumulated state
    for ret in L.func_returns(f):
        n = g.node_of(ret)
        if g.loop_of.get(n) is None and not isinstance(ret.value, ast.Call):
            r.site(L.site(f, ret, "result"))
            tr = p.trace(ret.value)
            if all(x == (f"param:{state}", "call:copy") or "call:apply" in x or any(s.endswith(":apply") for s in x) for x in tr):
                r.ok({"returns": "the accumulated copy"})
            else:
                r.fail(Finding("C16.guard", f, "result", f"apply_actions returns {sorted(tr)[:3]}", node=ret))
    r.require_sites(6)
    return r


def rule_export(repo: Repo, rid: str, cls: str, keyword: str) -> RuleResult:
    from .. import strshape as S
    from . import _c10_util as U
    r = RuleResult(rid, f"{cls}.export: first state, then per triplet one '({keyword} ...)' line followed by the post-state; whole list wrapped in one pair of parentheses",
                   "one step per (joint) action with chained states")
    f = U.deep(repo, f"{cls}.export")      # helpers in place, list building written as loops with one append per line
    p = L.prov(repo, f)
    r.site(f.qn)
    rets = [x for x in L.func_returns(f) if x.value is not None]
    if len(rets) != 1:
        raise AnalysisError(f"{cls}.export: one return of the list of lines expected")
    ev = S.Evaluator(repo, f)
    try:
        seq = ev.sequence(rets[0].value)
    except S.NotInterpretable as ex:
        raise AnalysisError(f"{cls}.export: the construction of the returned lines is not interpreted ({ex})")

    def hole(n) -> str:
        try:
            tr = p.trace(n)
        except KeyError:
            return "?" + unparse(n, 30)
        trip = [x for x in tr if x[0] == "param:triplets"]
        if trip and all("item:0" in x and "attr:previous_state" in x and x[-1] == "call:serialize" for x in trip):
            return "first_state"
        if trip and all("elem" in x and "attr:next_state" in x and x[-1] == "call:serialize" for x in trip):
            return "next_state"
        if trip and all(x[1:3] == ("elem", "attr:operator") for x in trip):
            return "operator"
        if trip and all(x[1:4] == ("elem", "attr:joint_action", "elem") for x in trip):
            return "member"
        return "?" + unparse(n, 30)

    got = S.render_seq(seq, hole)
    op_line = {"operator:": "(operator: {operator})\n", "operators:": "(operators: [{member}]*< >)\n"}[keyword]
    want = ["({first_state}", "[", op_line, "{next_state}", "]*", "wrap-last:_)"]
    loops = [it.loop for it in seq.items if isinstance(it, S.RepItems)]
    over_triplets = len(loops) == 1 and all(x == ("param:triplets",) for x in p.trace(loops[0].iter)) and not getattr(loops[0], "guards", None) \
        and not loops[0].conds
    if got == want and over_triplets and not seq.ordered:
        r.ok({"lines": got})
    elif got == want:
        r.fail(Finding(rid, f, "iterates", "export does not emit one step for every triplet, in order", node=rets[0]))
    else:
        r.fail(Finding(rid, f, "layout", f"the exported lines are {got} (expected {want})", node=rets[0]))
    r.require_sites(1)
    return r


def rule_objects(repo: Repo) -> RuleResult:
    r = RuleResult("C16.objects", "every Operator that library code applies is constructed with the problem objects",
                   "without them _apply_universal_effects returns early and forall effects are skipped")
    op_init = repo.find_method("Operator", "__init__")
    from ..inline import flatten
    for f0 in repo.all_funcs():
        f = flatten(repo, f0)
        ctors = [c for c in L.calls_in(f.node) if callee_name(c) == "Operator" and isinstance(c.func, ast.Name)]
        if not ctors:
            continue
        p = L.prov(repo, f)
        # is the constructed operator applied in this function (directly or via a name)?
        applies = [c for c in L.calls_in(f.node) if callee_name(c) == "apply" and isinstance(c.func, ast.Attribute)
                   and any(x[0] == "fresh:Operator" for x in p.trace(c.func.value))]
        if not applies:
            continue
        for c in ctors:
            used = any(any(x[0] == "fresh:Operator" for x in p.trace(a.func.value)) for a in applies)
            if not used:
                continue
            r.site(L.site(f, c, "applied operator"))
            po = L.arg_of(c, op_init, "problem_objects")
            try:
                po_tr = p.trace(po) if po is not None else set()
            except KeyError:
                po_tr = set()
            # an inlined helper whose own `problem_objects` parameter was left at its default None counts as "without"
            if po is None or (isinstance(po, ast.Constant) and po.value is None) or (po_tr and all(x == ("const:None",) for x in po_tr)):
                r.fail(Finding("C16.objects", f, "ctor:Operator-without-problem_objects",
                               f"{unparse(c, 70)} is applied but was built without problem_objects: universal (forall) effects of the member are skipped", node=c))
            else:
                r.ok({"function": f.qn, "problem_objects": unparse(po)})
    r.require_sites(2)
    return r


def _name_atoms(items):
    """atoms of a regex (re._parser items) that can match a letter: yields (description, admits '-')"""
    import re._constants as RC
    for op, av in items:
        opn = str(op)
        if opn == "IN":
            word = any(str(o) == "CATEGORY" and str(a) in ("CATEGORY_WORD", "CATEGORY_UNI_WORD") for o, a in av) or \
                any(str(o) == "RANGE" and chr(a[0]).isalpha() for o, a in av)
            neg = any(str(o) == "NEGATE" for o, a in av)
            if word and not neg:
                dash = any(str(o) == "LITERAL" and a == ord("-") for o, a in av) or any(str(o) == "RANGE" and a[0] <= ord("-") <= a[1] for o, a in av)
                yield "character class", dash
        elif opn == "CATEGORY" and str(av) in ("CATEGORY_WORD", "CATEGORY_UNI_WORD"):
            yield "\\w", False
        elif opn in ("MAX_REPEAT", "MIN_REPEAT", "POSSESSIVE_REPEAT"):
            yield from _name_atoms(av[2])
        elif opn == "SUBPATTERN":
            yield from _name_atoms(av[3])
        elif opn == "BRANCH":
            for alt in av[1]:
                yield from _name_atoms(alt)
        elif opn in ("ASSERT", "ASSERT_NOT"):
            yield from _name_atoms(av[1])
        elif opn == "ATOMIC_GROUP":
            yield from _name_atoms(av)


def rule_regex(repo: Repo) -> RuleResult:
    """the pattern that cuts a joint action line into its members must admit every PDDL name: letters, digits, '_' and '-' in the
    action name AND in every argument"""
    import re._parser as RP
    r = RuleResult("C16.regex", "every name position of JOINT_ACTION_REGEX admits '-' (PDDL names such as robot-1, pos-1-2)",
                   "a member whose arguments contain a hyphen is a member all the same: it is executed and listed")
    m = repo.module("multi_agent.multi_agent_trajectory_exporter")
    ok, pat = repo.const_value(m.name, "JOINT_ACTION_REGEX")
    owner = (m.short, "JOINT_ACTION_REGEX", str(m.path))
    r.site(f"{m.short}.JOINT_ACTION_REGEX")
    if not ok or not isinstance(pat, str):
        raise AnalysisError("JOINT_ACTION_REGEX: constant pattern not found")
    try:
        tree = RP.parse(pat)
    except Exception as ex:
        raise AnalysisError(f"JOINT_ACTION_REGEX does not parse: {ex}")
    atoms = list(_name_atoms(list(tree)))
    if not atoms:
        raise AnalysisError("JOINT_ACTION_REGEX: no name-matching atom found")
    bad = [d for d, dash in atoms if not dash]
    if bad:
        r.fail(Finding("C16.regex", owner, "name-without-hyphen", f"{pat!r}: {bad[0]} matches name characters but not '-': a member such as (move robot-1 pos-1-2) "
                       f"is not recognised and silently left out of the joint action"))
    else:
        r.ok({"pattern": pat, "name_atoms": len(atoms)})
    r.require_sites(1)
    return r


def rule_joint(repo: Repo) -> RuleResult:
    """one joint action = ONE call of apply_actions on the triplet's previous state with all executed members: the joint applicability
    test then sees every member in the state before the step (a member must not be enabled by another member of the same step)"""
    r = RuleResult("C16.joint", "the triplet constructor hands the previous state itself and the whole member list to apply_actions",
                   "all members are tested in the state before the joint action; one step per joint action")
    f = L.fn(repo, "MultiAgentTrajectoryExporter.create_multi_agent_triplet")
    p = L.prov(repo, f)
    ap = repo.func("multi_agent.common::apply_actions")
    calls = [c for c in L.calls_in(f.node) if callee_name(c) == "apply_actions"]
    if not calls:
        raise AnalysisError("create_multi_agent_triplet: no call of apply_actions found")
    pm = L.parents_of(f)
    for c in calls:
        r.site(L.site(f, c, "joint application"))
        st = L.arg_of(c, ap, "current_state", 1)
        members = L.arg_of(c, ap, "joint_action", 2)
        if st is None or members is None:
            raise AnalysisError("create_multi_agent_triplet: arguments of apply_actions not recognised")
        ts = p.trace(st)
        from_outcome = any(any(s_.endswith(":apply_actions") for s_ in x) for x in ts)
        from_prev = any(x[0] == "param:previous_state" for x in ts)
        in_member_loop = False
        cur = c
        while cur in pm:
            cur = pm[cur]
            if isinstance(cur, (ast.For, ast.While)):
                in_member_loop = True
        if from_outcome or not from_prev:
            r.fail(Finding("C16.joint", f, "state:accumulated", f"apply_actions is handed {unparse(st, 40)}, which is (also) the outcome of applying other members: "
                           f"a member is then tested in a state that earlier members of the same joint action have changed", node=c))
        elif in_member_loop:
            r.fail(Finding("C16.joint", f, "per-member-call", "apply_actions is called inside a loop of the triplet constructor: the joint action is split into several applications", node=c))
        else:
            r.ok({"state": "previous_state", "members": unparse(members, 40)})
    r.require_sites(1)
    return r


# ================================================================================================ walk / step / parse clauses
# (necessary conditions of "a joint action acts like its members": every member is visited, turned into ITS operator, recorded)

# what an Operator that stands for ONE member m of a joint action is built from (Operator.__init__, models/pddl_operator.py)
OPERATOR_OF_MEMBER = {
    "action": "the schema found in the domain's action table under m.name",
    "domain": "the domain the schema was taken from",
    "grounded_action_call": "m.parameters (the objects the member is called with)",
}
# an ActionCall copied from a member m (ActionCall.__init__, models/action_call.py): which attribute of m each parameter receives
ACTIONCALL_OF_MEMBER = {"name": "attr:name", "grounded_parameters": "attr:parameters"}
# token positions of `(name arg1 arg2 ...)` after splitting on white space: the first token is the action name, the rest are the arguments
TOKENS_OF_GROUP = {"name": "first token (index 0)", "grounded_parameters": "all tokens from index 1 on"}
# functions through which "inapplicable actions are allowed" is handed down; the property demands an EXPLICIT permission, so the default is False
OPT_IN_PARAMETER = "allow_inapplicable_actions"
OPT_IN_FUNCTIONS = ("multi_agent.common::apply_actions", "MultiAgentTrajectoryExporter.create_multi_agent_triplet", "MultiAgentTrajectoryExporter.parse_plan")
# joint action sizes the property quantifies over (1-4 members); length tests are evaluated for 0 .. LEN_RANGE-1 members
MEMBER_COUNTS = (1, 2, 3, 4)
LEN_RANGE = 10
# regex searches that enumerate the parenthesised groups of a line
GROUP_SEARCHES = ("finditer", "findall")


def _first_position(m: str) -> bool:
    return m in ("item:0", "unpack:0", "item:-1")


def _fixed_position(m: str) -> bool:
    return m.startswith(("item:", "unpack:"))


def _split_member(x: tuple, is_members):
    """(member designator, rest of the path) when the path goes through ONE element of the member collection"""
    from . import _c16_util as U
    x = U.norm_path(x)
    for i in range(1, len(x)):
        if is_members(tuple(x[:i])):
            return x[i], tuple(x[i + 1:])
    return None


def _len_atom(e, p, is_members):
    """a comparison between the number of members and integer constants -- `len(M) == 1`, `1 == len(M)`, `0 < len(M) < 2`, also through a
    local that holds the length -- evaluated for 0 .. LEN_RANGE-1 members; the atom is named by its truth table, so equivalent tests share
    one atom and complementary tests are its negation"""
    if not (isinstance(e, ast.Compare) and all(isinstance(o, (ast.Eq, ast.NotEq, ast.Lt, ast.LtE, ast.Gt, ast.GtE)) for o in e.ops)):
        return None
    operands = [e.left] + list(e.comparators)

    def is_len(x):
        if not isinstance(x, (ast.Call, ast.Name)):
            return False
        try:
            tr = p.trace(x)
        except (KeyError, RecursionError):
            return False
        return bool(tr) and all(len(t) >= 2 and t[-1] == "arg0:len" and is_members(tuple(t[:-1])) for t in tr)

    kinds = []
    for o in operands:
        if isinstance(o, ast.Constant) and isinstance(o.value, int) and not isinstance(o.value, bool):
            kinds.append(o.value)
        elif is_len(o):
            kinds.append(None)
        else:
            return None
    if None not in kinds:
        return None
    import operator as OP
    fn = {ast.Eq: OP.eq, ast.NotEq: OP.ne, ast.Lt: OP.lt, ast.LtE: OP.le, ast.Gt: OP.gt, ast.GtE: OP.ge}
    bits = ""
    for n in range(LEN_RANGE):
        vals = [n if k is None else k for k in kinds]
        bits += "1" if all(fn[type(o)](a, b) for o, a, b in zip(e.ops, vals, vals[1:])) else "0"
    if bits[0] == "1":
        return "!len:" + "".join("1" if b == "0" else "0" for b in bits)
    return "len:" + bits


def _len_valuation(atoms, n: int) -> dict:
    return {a: a[4:][n] == "1" for a in atoms if a.startswith("len:")}


def _walk_matcher(p, is_members):
    def m(e):
        a = _len_atom(e, p, is_members)
        if a:
            return a
        a = _matcher(e, p)
        return None if a == "single" else a
    return m


def _member_operator(src, is_domain, is_members):
    """problems of one Operator construction that has to stand for one member; returns ([(parameter, text)], {member designators})"""
    bad, members = [], set()
    lookups = keys = 0
    for x in src.get("action", set()):
        if "askey" in x[:-1]:
            continue        # how an index was computed
        if x and x[-1] == "askey":
            sm = _split_member(x[:-1], is_members)
            if sm is not None and sm[1] == ("attr:name",):
                members.add(sm[0])
                keys += 1
            else:
                bad.append(("action", f"the schema is looked up under {x[:-1]} instead of the member's name"))
        elif any(is_domain(tuple(x[:i])) and x[i] == "attr:actions" for i in range(1, len(x))):
            lookups += 1
        else:
            bad.append(("action", f"the action schema is {x} instead of an entry of the domain's action table"))
    if not bad and not (lookups and keys):
        bad.append(("action", "the action schema is not looked up in the domain's action table under the member's name"))
    dom = {x for x in src.get("domain", set()) if "askey" not in x}
    if not dom or not all(is_domain(x) for x in dom):
        bad.append(("domain", f"the operator's domain is {sorted(dom)[:2]}"))
    args = {x for x in src.get("grounded_action_call", set()) if "askey" not in x}
    ok_args = bool(args)
    for x in args:
        sm = _split_member(x, is_members)
        if sm is not None and sm[1] == ("attr:parameters",):
            members.add(sm[0])
        else:
            ok_args = False
    if not ok_args:
        bad.append(("grounded_action_call", f"the operator is grounded with {sorted(args)[:2]} instead of the member's parameters"))
    if not bad and len(members) != 1:
        bad.append(("grounded_action_call", f"schema and arguments of one operator come from different members {sorted(members)}"))
    return bad, members


def rule_walk(repo: Repo) -> RuleResult:
    from . import _c16_util as U
    r = RuleResult("C16.walk", "apply_actions: the single-member shortcut is taken for exactly one member and applies member 0; the walk over the members is never "
                   "left early; every applied operator is built from ITS member (schema by name, domain, arguments); after the joint test members are applied unconditionally",
                   "the result is the state after all members, whatever their number and wherever the nop entries stand")
    f = U.stmt_form(repo, "multi_agent.common::apply_actions")
    p = L.prov(repo, f)
    is_members = lambda x: x == ("param:joint_action",)
    is_domain = lambda x: x == ("param:domain",)
    G = L.Guards(f, _walk_matcher(p, is_members))
    op_init = repo.find_method("Operator", "__init__")
    ap = repo.func("Operator.apply")
    len_atoms = [a for a in G.atoms_seen if a.startswith("len:")]
    counts = [n for n in range(1, LEN_RANGE) if n in MEMBER_COUNTS or any(a[4:][n] != a[4:][n - 1] or (n + 1 < LEN_RANGE and a[4:][n] != a[4:][n + 1]) for a in len_atoms)]
    shortcut, walked, walked_conts = [], [], set()
    for c in L.calls_in(f.node):
        if not (callee_name(c) in ("apply", "is_applicable") and isinstance(c.func, ast.Attribute)):
            continue
        try:
            tr = p.trace(c.func.value, keys=True)
        except (KeyError, RecursionError):
            continue
        if not any(x[0] == "fresh:Operator" for x in tr):
            continue
        r.site(L.site(f, c, "member operator"))
        bad, members = _member_operator(U.ctor_sources(tr, op_init, "Operator"), is_domain, is_members)
        for param, text in bad:
            r.fail(Finding("C16.walk", f, f"operator-args:{param}", f"{unparse(c, 50)}: {text} ({OPERATOR_OF_MEMBER[param]} expected)", node=c))
        if not bad:
            r.ok({"operator_of": sorted(members)})
        if callee_name(c) != "apply" or len(members) != 1:
            continue
        (m,) = tuple(members)
        (shortcut if _fixed_position(m) else walked).append((c, m))
        if not _fixed_position(m):
            walked_conts |= U.containers_of(tr)
    base = {"nop": False, "applicable": True, "allow": False}
    for c, m in shortcut:
        r.site(L.site(f, c, "shortcut"))
        if not _first_position(m):
            r.fail(Finding("C16.walk", f, "shortcut-member", f"the single-member shortcut applies member {m} of the joint action, the only member is member 0", node=c))
            continue
        if not len_atoms:
            continue        # the test that selects the shortcut is not a comparison of the member count: not decided here
        wrong = [n for n in counts if n != 1 and G.reaches_expr({**base, **_len_valuation(len_atoms, n)}, c)]
        if wrong:
            r.fail(Finding("C16.walk", f, "shortcut-length", f"the shortcut that applies only member 0 is taken for joint actions of {wrong} members: the other members are dropped", node=c))
        else:
            r.ok({"shortcut_only_for": 1})
    r.site(f.qn + " [walk]")
    unwalked = [n for n in counts if n >= 2 and not any(G.reaches_expr({**base, **_len_valuation(len_atoms, n)}, c) for c, _m in walked)]
    if unwalked:
        r.fail(Finding("C16.walk", f, "walk-unreachable", f"for joint actions of {unwalked} members no application of the walked member is reached"))
    else:
        r.ok({"walked_for": [n for n in counts if n >= 2]})

    # the walk: the loop(s) over the members in which a member is applied, or in which its operator is put aside for a later loop that applies it
    def encloses(lp):
        ids = {id(x) for x in ast.walk(lp)}
        return any(id(c) in ids for c, _m in walked)

    def fills(lp):
        return any(isinstance(x, ast.Call) and isinstance(x.func, ast.Attribute) and x.func.attr in ("append", "add") and isinstance(x.func.value, ast.Name)
                   and x.func.value.id in walked_conts for x in ast.walk(lp))

    def over_set_aside(lp):
        try:
            tr = p.trace(lp.iter)
        except (KeyError, RecursionError):
            return False
        return any(s_.startswith("in:") and s_.split("@")[-1] in walked_conts for x in tr for s_ in x)

    member_loops = U.loops_over(f, p, is_members)
    loops = [lp for lp in member_loops if encloses(lp) or fills(lp)]
    loops += [lp for lp in ast.walk(f.node) if isinstance(lp, ast.For) and lp not in member_loops and encloses(lp) and over_set_aside(lp)]
    many = _len_valuation(len_atoms, 2)
    for lp in [lp for lp in member_loops if fills(lp) and not encloses(lp)]:
        r.site(L.site(f, lp, "operators set aside"))
        probs = U.walk_report(f, p, G, [lp], walked_conts, [("member", {"nop": False, **many}, lambda t: U.fresh_roots(t) == {"Operator"})])
        if any(k == "entry-missing" for k, _l, _n in probs):
            r.fail(Finding("C16.walk", f, "walk-member-dropped", "on some path through one turn of the walk the operator of a member is not kept for the application", node=lp))
        else:
            r.ok({"set_aside": "one operator per member"})
    for lp in loops:
        r.site(L.site(f, lp, "walk"))
        early = [lab for lab, v in (("a nop entry", {"nop": True}), ("an applicable member", {"nop": False, "applicable": True, "allow": False}),
                                   ("an allowed inapplicable member", {"nop": False, "applicable": False, "allow": True}))
                 if L.leaves_loop_early(G, {**v, **many}, lp)]
        if early:
            r.fail(Finding("C16.walk", f, "walk-left-early", f"after {early[0]} the walk over the members ends: the remaining members are neither tested nor applied", node=lp))
        else:
            r.ok({"walk": "every member is visited"})
    for c, _m in walked:
        val = {"nop": False, "applicable": False, "allow": True, **many}
        if not G.reaches_expr(val, c):
            continue
        r.site(L.site(f, c, "application after the joint test"))
        al = L.arg_of(c, ap, "allow_inapplicable_actions")
        if al is None:
            v = L.is_true_const(ap.defaults.get("allow_inapplicable_actions"))
        else:
            v = L.is_true_const(al)
            if v is None:
                v = G.value(val, al)
        if v is False:
            r.fail(Finding("C16.walk", f, "walk-apply-allow", "a member that passed the joint test because inapplicable actions are allowed is applied with allow_inapplicable_actions "
                           "false: Operator.apply refuses it although the caller allowed it", node=c))
        else:
            r.ok({"applied_with_allow": unparse(al, 30) if al is not None else "default"})
    r.require_sites(3)
    return r


def rule_default(repo: Repo) -> RuleResult:
    r = RuleResult("C16.default", f"'{OPT_IN_PARAMETER}' is off unless the caller passes it", "an inapplicable member is refused unless inapplicable actions were EXPLICITLY allowed")
    for spec in OPT_IN_FUNCTIONS:
        try:
            f = repo.func(spec)
        except AnalysisError:
            continue
        if OPT_IN_PARAMETER not in f.params:
            continue
        r.site(f.qn)
        d = f.defaults.get(OPT_IN_PARAMETER)
        if d is None:
            r.ok({f.qn: "no default"})
            continue
        if isinstance(d, ast.Name):
            ok, v = repo.const_value(f.mod.name, d.id)
            d = ast.Constant(value=v) if ok else d
        if isinstance(d, ast.Constant) and d.value is not False and d.value is not None and d.value != 0:
            r.fail(Finding("C16.default", f, f"default:{OPT_IN_PARAMETER}", f"{OPT_IN_PARAMETER} defaults to {d.value!r}: a joint action with an inapplicable member is applied "
                           "although nobody allowed it", node=f.node))
        else:
            r.ok({f.qn: "False"})
    r.require_sites(1)
    return r


def _param_named(init, attr: str, fallback: str) -> str:
    """the constructor parameter that is stored in self.<attr>"""
    if init is not None:
        for n in ast.walk(init.node):
            if isinstance(n, (ast.Assign, ast.AnnAssign)) and isinstance(n.value, ast.Name) and n.value.id in init.params:
                tgts = n.targets if isinstance(n, ast.Assign) else [n.target]
                if any(isinstance(t, ast.Attribute) and t.attr == attr and isinstance(t.value, ast.Name) and t.value.id == init.self_name for t in tgts):
                    return n.value.id
    return fallback


def _content(tr):
    return {x for x in tr if not (len(x) == 1 and x[0].startswith("fresh:")) and "askey" not in x}


def _report_walk(r: RuleResult, rid: str, f, probs, prefix: str, texts, ok_sample):
    roles = set()
    for kind, label, nd in probs:
        role = f"{prefix}{kind}" + ("" if kind == "left-early" or not label else f":{label}")
        if role in roles:
            continue
        roles.add(role)
        r.fail(Finding(rid, f, role, texts[kind].format(label=label, what=unparse(nd, 50) if nd is not None else "?"), node=nd))
    if not probs:
        r.ok(ok_sample)


def _collected(repo: Repo, r: RuleResult, rid: str, f, p, G, sink_tr, sources, cases, prefix: str, what: str, texts, node=None, of: str = "the members of the joint action"):
    """the collection with provenance `sink_tr` is filled by a walk (possibly in stages) over one of the `sources`; `cases` per source"""
    from . import _c16_util as U
    stages_by = [(U.walk_chain(f, p, src, sink_tr), cs) for src, cs in zip(sources, cases)]
    if not any(st and any(fin for _lp, _t, fin in st) for st, _cs in stages_by):
        if any(len(x) > 1 for x in _content(sink_tr)):
            raise AnalysisError(f"{f.qn}: the walk that fills {what} is not recognised")
        r.fail(Finding(rid, f, f"{prefix}not-collected", f"{what} is not filled from {of}: it stays empty", node=node))
        return
    probs = []
    for st, cs in stages_by:
        if st and any(fin for _lp, _t, fin in st):
            probs += U.chain_report(f, p, G, st, cs)
    _report_walk(r, rid, f, probs, prefix, texts, {what: "one entry per member"})


def rule_step(repo: Repo) -> RuleResult:
    from . import _c16_util as U
    rid = "C16.step"
    r = RuleResult(rid, "create_multi_agent_triplet: the step records one entry per member in order (NOPOperator for a nop, the member's own Operator otherwise) and hands "
                   "exactly the non-nop members to apply_actions", "one step per joint action that lists what every agent did; nop entries change nothing")
    f = U.stmt_form(repo, "MultiAgentTrajectoryExporter.create_multi_agent_triplet")
    p = L.prov(repo, f)
    parsed = lambda x: len(x) >= 2 and any(s_.endswith(":parse_action_call") for s_ in x[:-1])
    is_all = lambda x: parsed(x) and x[-1] == "attr:actions" and "elem" not in x
    is_filtered = lambda x: parsed(x) and x[-1] == "attr:operational_actions" and "elem" not in x
    is_members = lambda x: is_all(x) or is_filtered(x)
    is_domain = lambda x: x == ("self", "attr:domain")
    G = L.Guards(f, _walk_matcher(p, is_members))
    op_init = repo.find_method("Operator", "__init__")
    ac_init = repo.find_method("ActionCall", "__init__")
    tri_init = repo.find_method("MultiAgentTrajectoryTriplet", "__init__")
    ops_param = _param_named(tri_init, "joint_action", "ops")
    # -- the recorded joint action
    ctors = [c for c in L.calls_in(f.node) if callee_name(c) == "MultiAgentTrajectoryTriplet"]
    if not ctors:
        raise AnalysisError("create_multi_agent_triplet: construction of the triplet not found")
    texts = {"entry-missing": "on some path through one turn of the walk a {label} entry of the joint action is not recorded in the step",
             "entry-wrong": "for a {label} entry the step records {what}",
             "left-early": "the walk that records the members can end before the last member: later members are missing from the step"}
    for c in ctors:
        a = L.arg_of(c, tri_init, ops_param, 1)
        if a is None:
            raise AnalysisError("create_multi_agent_triplet: the recorded joint action of the triplet is not recognised")
        r.site(L.site(f, c, "recorded joint action"))
        tr = p.trace(a, keys=True)
        def built(cls):
            def accept(t):
                kinds = U.fresh_roots(t)
                if not kinds:
                    raise AnalysisError("create_multi_agent_triplet: an entry of the recorded joint action is not built in the function (or its private helpers)")
                return kinds == {cls}
            return accept
        cases = [("nop", {"nop": True}, built("NOPOperator")), ("member", {"nop": False}, built("Operator"))]
        _collected(repo, r, rid, f, p, G, tr, [is_all], [cases], "recorded:", "the joint action recorded in the triplet", texts, node=c)
        src = U.ctor_sources({x for x in tr if x[0] != "fresh:Operator"}, op_init, "Operator")
        if src:
            r.site(L.site(f, c, "recorded operators"))
            bad, _m = _member_operator(src, is_domain, is_all)
            for param, text in bad:
                r.fail(Finding(rid, f, f"recorded:operator-args:{param}", f"{text} ({OPERATOR_OF_MEMBER[param]} expected)", node=c))
            if not bad:
                r.ok({"recorded_operator_of": "its member"})
    # -- the executed members
    ap = repo.func("multi_agent.common::apply_actions")
    texts = {"entry-missing": "on some path through one turn of the walk a {label} entry adds nothing to the executed members",
             "entry-wrong": "for a {label} entry the walk adds {what} to the executed members",
             "left-early": "the walk that collects the executed members can end before the last member"}
    for c in [c for c in L.calls_in(f.node) if callee_name(c) == "apply_actions"]:
        a = L.arg_of(c, ap, "joint_action", 2)
        if a is None:
            continue
        r.site(L.site(f, c, "executed members"))
        tr = p.trace(a, keys=True)
        content = _content(tr)
        direct = {x for x in content if not any(s_.startswith("in:") for s_ in x)}
        uses_view = any("attr:operational_actions" in x for x in content)
        if direct and all(is_filtered(x) for x in direct) and direct == content:
            r.ok({"executed": "the non-nop view of the parsed joint action"})
        elif direct and all(is_all(x) for x in direct) and direct == content:
            r.ok({"executed": "all members (nop entries are skipped by apply_actions)"})       # not decided here
        else:
            def accept(t):
                ck = U.fresh_roots(t)
                if ck == {"ActionCall"}:
                    return True
                t = _content(t)
                return not ck and bool(t) and all(_split_member(x, is_members) is not None and _split_member(x, is_members)[1] == () for x in t)
            _collected(repo, r, rid, f, p, G, tr, [is_all, is_filtered], [[("member", {"nop": False}, accept), ("nop", {"nop": True}, None)], [("member", {}, accept)]],
                       "executed:", "the list of executed members", texts, node=c)
            src = U.ctor_sources(tr, ac_init, "ActionCall")
            bad = []
            for param, step in ACTIONCALL_OF_MEMBER.items():
                for x in src.get(param, set()):
                    if "askey" in x:
                        continue
                    sm = _split_member(x, is_members)
                    if sm is None or sm[1] != (step,):
                        bad.append((param, x))
            for param, x in bad[:1]:
                r.fail(Finding(rid, f, f"executed:actioncall-args:{param}", f"the executed copy of a member gets {x} as its {param}", node=c))
        if uses_view:
            try:
                fv = U.stmt_form(repo, "JointActionCall.operational_actions")
            except AnalysisError:
                fv = None
            if fv is not None:
                pv = L.prov(repo, fv)
                own = lambda x: x == ("self", "attr:actions")
                Gv = L.Guards(fv, _walk_matcher(pv, own))
                keep = lambda t: bool(_content(t)) and all(U.norm_path(x) == ("self", "attr:actions", "elem") for x in _content(t))
                for ret in L.func_returns(fv):
                    r.site(L.site(fv, ret, "non-nop view"))
                    _collected(repo, r, rid, fv, pv, Gv, pv.trace(ret.value, keys=True), [own], [[("member", {"nop": False}, keep), ("nop", {"nop": True}, None)]],
                               "executed:", "the non-nop view of a joint action", texts, node=ret)
    r.require_sites(2)
    return r


def rule_parse(repo: Repo) -> RuleResult:
    from . import _c16_util as U
    rid = "C16.parse"
    r = RuleResult(rid, "parse_action_call: the pattern is searched in the line; every parenthesised group becomes one ActionCall (first token = name, the rest = arguments) "
                   "and all of them are returned, in order", "the parsed joint action has one entry per agent, with the agent's action and objects")
    f = U.stmt_form(repo, "multi_agent.multi_agent_trajectory_exporter::parse_action_call")
    if not f.params:
        raise AnalysisError("parse_action_call: no parameter")
    p = L.prov(repo, f)
    line = f"param:{f.params[0]}"
    G = L.Guards(f, lambda e: None)
    jac_init = repo.find_method("JointActionCall", "__init__")
    ac_init = repo.find_method("ActionCall", "__init__")
    # -- what is searched in what
    for c in L.calls_in(f.node):
        if callee_name(c) not in GROUP_SEARCHES or not isinstance(c.func, ast.Attribute):
            continue
        r.site(L.site(f, c, "search"))
        recv = p.trace(c.func.value)
        kw = {k.arg: k.value for k in c.keywords if k.arg}
        if recv and all(x == ("global:re",) for x in recv):
            pat = kw.get("pattern", c.args[0] if len(c.args) > 0 else None)
            text = kw.get("string", c.args[1] if len(c.args) > 1 else None)
        else:
            pat, text = c.func.value, kw.get("string", c.args[0] if c.args else None)
        t_pat = p.trace(pat) if pat is not None else set()
        t_text = p.trace(text) if text is not None else set()
        if t_text and all(x[0] == line for x in t_text) and t_pat and not any(x[0] == line for x in t_pat):
            r.ok({"searched": "the pattern in the line"})
        else:
            r.fail(Finding(rid, f, "search-args", f"{unparse(c, 60)}: the text that is searched is {sorted(t_text)[:2]}, the pattern {sorted(t_pat)[:2]} "
                           "(the joint action line has to be searched for the member pattern)", node=c))
    # -- one ActionCall per group, all returned
    is_matches = lambda x: x[-1].split(":")[-1] in GROUP_SEARCHES and x[-1].startswith(("call:", "arg", "kw:"))
    texts = {"entry-missing": "on some path a parenthesised group of the line adds no ActionCall to the joint action",
             "entry-wrong": "for a group the walk adds {what}",
             "left-early": "the walk over the groups can end before the last group"}
    for ret in L.func_returns(f):
        if ret.value is None:
            continue
        r.site(L.site(f, ret, "parsed joint action"))
        tr = p.trace(ret.value, keys=True)
        if not any(x[0] == "fresh:JointActionCall" for x in tr):
            raise AnalysisError("parse_action_call: the returned JointActionCall is not built here")
        src = U.ctor_sources(tr, jac_init, "JointActionCall")
        members = src.get(_param_named(jac_init, "actions", "actions"), set())
        _collected(repo, r, rid, f, p, G, members, [is_matches], [[("", {}, lambda t: U.fresh_roots(t) == {"ActionCall"})]], "groups:",
                   "the member list of the returned joint action", texts, node=ret, of="the parenthesised groups of the line")
        # token positions
        asrc = U.ctor_sources({U.norm_path(x) for x in members}, ac_init, "ActionCall")
        for param, want in (("name", lambda s_: s_ in ("item:0", "unpack:0")), ("grounded_parameters", lambda s_: s_ == "slice:1:")):
            pos = set()
            for x in asrc.get(param, set()):
                if x and x[0] == line and "call:split" in x and "askey" not in x:
                    i = len(x) - 1 - x[::-1].index("call:split")
                    pos.add(x[i + 1] if i + 1 < len(x) else "whole")
            if not pos:
                continue
            r.site(L.site(f, ret, f"tokens of {param}"))
            if all(want(s_) for s_ in pos):
                r.ok({param: sorted(pos)})
            else:
                r.fail(Finding(rid, f, f"tokens:{param}", f"the {param} of a member is taken from {sorted(pos)} of the split group ({TOKENS_OF_GROUP[param]} expected)", node=ret))
    r.require_sites(2)
    return r


def rules(repo: Repo, tier: str) -> List[RuleResult]:
    return [rule_guard(repo), rule_regex(repo),
            c04.rule_thread(repo, "C16.thread", "MultiAgentTrajectoryExporter.parse_plan", "create_multi_agent_triplet", init_fn="create_initial_state"),
            rule_export(repo, "C16.export", "MultiAgentTrajectoryExporter", "operators:"),
            rule_objects(repo), rule_joint(repo), rule_walk(repo), rule_default(repo), rule_step(repo), rule_parse(repo)] + _member_rules(repo)


def _member_rules(repo: Repo) -> List[RuleResult]:
    """a joint action acts like its members: every member is applied by Operator.apply (with allow_inapplicable_actions=True
    after the joint applicability test), so the conditional-effect guard and the copy discipline of apply are part of C16"""
    from . import c03
    return [c03.rule_antecedent(repo).as_rule("C16.member.antecedent"), c03.rule_copy(repo).as_rule("C16.member.copy")]
