"""C16 -- a joint action acts like its members applied one after another."""
from __future__ import annotations

import ast
import itertools
from typing import List

from .. import cfg as C
from .. import lib as L
from ..core import AnalysisError, Repo, unparse
from ..prov import callee_name
from ..report import Finding, RuleResult
from . import c04

EXPLANATION = (
    "C16.guard: in apply_actions applicability of every member is asked on the original state parameter, effects are accumulated on "
    "its copy, the ValueError is reachable exactly for (not applicable and not allowed) -- finite valuation of the guard --, nop "
    "members are skipped before the schema lookup and the single-member shortcut passes the allow flag through. C16.thread: the "
    "multi-agent exporter threads states exactly like the single-agent one (def-use chains), one triplet per joint action, and "
    "export() writes one (operators: ...) line followed by the post-state per triplet. C16.objects: every Operator that the library "
    "itself applies is constructed with the problem objects, otherwise forall effects are silently skipped."
)
UNDECIDED = "permutation independence of the accumulated result; non-interference of the members (assumed by the property)"


def _matcher(e, p=None):
    if isinstance(e, ast.Name) and (L.is_param(p, e, "allow_inapplicable_actions") if p is not None else e.id == "allow_inapplicable_actions"):
        return "allow"
    if isinstance(e, ast.Call) and isinstance(e.func, ast.Attribute) and e.func.attr == "is_applicable":
        return "applicable"
    if isinstance(e, ast.Compare) and len(e.ops) == 1 and isinstance(e.left, ast.Call) and callee_name(e.left) == "len" \
            and isinstance(e.comparators[0], ast.Constant) and e.comparators[0].value == 1 and isinstance(e.ops[0], ast.Eq):
        return "single"
    if isinstance(e, ast.Compare) and len(e.ops) == 1 and isinstance(e.left, ast.Attribute) and e.left.attr == "name" \
            and ((isinstance(e.comparators[0], ast.Name) and e.comparators[0].id == "NOP_ACTION") or
                 (isinstance(e.comparators[0], ast.Constant) and (getattr(e.comparators[0], "const_name", "") == "NOP_ACTION" or e.comparators[0].value == "nop"))):
        return "nop" if isinstance(e.ops[0], ast.Eq) else "!nop"
    return None


def rule_guard(repo: Repo) -> RuleResult:
    r = RuleResult("C16.guard", "apply_actions: applicability on the original state, effects on its copy, refusal iff not applicable and not allowed, nop skipped",
                   "joint action = members applied one after the other; refused when a member is inapplicable")
    f = L.fn(repo, "multi_agent.common::apply_actions")
    p = L.prov(repo, f)
    G = L.Guards(f, lambda e: _matcher(e, p))
    g = G.g
    state = "current_state"
    if state not in f.params:
        raise AnalysisError("apply_actions: parameter 'current_state' not found")
    for c in L.calls_in(f.node):
        if callee_name(c) == "is_applicable" and isinstance(c.func, ast.Attribute):
            r.site(L.site(f, c, "applicability"))
            tr = p.trace(c.args[0]) if c.args else set()
            if tr and all(x == (f"param:{state}",) for x in tr):
                r.ok({"applicability_tested_on": "the original state parameter"})
            else:
                r.fail(Finding("C16.guard", f, "applicable-state", f"member applicability is tested on {sorted(tr)[:3]} instead of the state the joint action starts from", node=c))
    applies = [c for c in L.calls_in(f.node) if callee_name(c) == "apply" and isinstance(c.func, ast.Attribute)]
    ap = repo.func("Operator.apply")
    loop_applies = [c for c in applies if g.loop_of.get(g.node_containing(c)) is not None]
    short_applies = [c for c in applies if c not in loop_applies]
    for c in loop_applies:
        r.site(L.site(f, c, "accumulation"))
        st = L.arg_of(c, ap, "previous_state")
        tr = p.trace(st) if st is not None else set()
        init = [x for x in tr if "call:apply" not in x and not any(s.endswith(":apply") for s in x)]
        carried = [x for x in tr if x not in init]
        ok_init = bool(init) and all(x == (f"param:{state}", "call:copy") for x in init)
        ok_car = all(any(s == "call:apply" for s in x) or any(s.endswith(":apply") for s in x) for x in carried)
        if ok_init and ok_car:
            r.ok({"accumulates_on": "current_state.copy() / result of the previous member"})
        else:
            r.fail(Finding("C16.guard", f, "accumulate-state", f"effects are accumulated on {sorted(tr)[:3]}", node=c))
    for c in short_applies:
        r.site(L.site(f, c, "single-member shortcut"))
        st = L.arg_of(c, ap, "previous_state")
        al = L.arg_of(c, ap, "allow_inapplicable_actions")
        t1 = p.trace(st) if st is not None else set()
        t2 = p.trace(al) if al is not None else set()
        if t1 and all(x == (f"param:{state}",) for x in t1) and t2 and all(x == ("param:allow_inapplicable_actions",) for x in t2):
            r.ok({"shortcut": "Operator(...).apply(current_state, allow_inapplicable_actions=allow_inapplicable_actions)"})
        else:
            r.fail(Finding("C16.guard", f, "shortcut", f"the single-action shortcut applies to {sorted(t1)[:2]} with allow={sorted(t2)[:2]}", node=c))
    raises = [n for n in g.nodes() if g.kind[n] == "raise"]
    r.site(f.qn + " [refusal table]")
    table, bad = {}, []
    for app, allow in itertools.product([False, True], repeat=2):
        seen = G.reach({"applicable": app, "allow": allow, "single": False, "nop": False})
        raised = any(n in seen for n in raises)
        applied = any(g.node_containing(c) in seen for c in loop_applies)
        want = (not app) and (not allow)
        table[f"applicable={app},allow={allow}"] = {"raise": raised, "member_applied": applied}
        if raised != want or applied != (not want):
            bad.append((app, allow))
    if bad or not raises:
        r.fail(Finding("C16.guard", f, "refusal-table", f"refusal differs from (not applicable and not allow) for (applicable, allow) in {bad}"), table)
    else:
        r.ok(table)
    # nop members: nothing of the member is looked up or applied
    r.site(f.qn + " [nop]")
    seen = G.reach({"nop": True, "single": False})
    touched = [c for c in L.calls_in(f.node) if g.loop_of.get(g.node_containing(c)) is not None and g.node_containing(c) in seen
               and callee_name(c) in ("apply", "is_applicable", "Operator")]
    lookups = [n for n in ast.walk(f.node) if isinstance(n, ast.Subscript) and isinstance(n.value, ast.Attribute) and n.value.attr == "actions"
               and g.loop_of.get(g.node_containing(n)) is not None and g.node_containing(n) in seen]
    if "nop" not in G.atoms_seen:
        r.fail(Finding("C16.guard", f, "missing:nop-skip", "apply_actions has no test that skips nop members"))
    elif touched or lookups:
        r.fail(Finding("C16.guard", f, "nop-not-skipped", "a nop member still reaches the schema lookup / application"))
    else:
        r.ok({"nop_members": "skipped before the schema lookup"})
    # result: the accumulated state
    for ret in L.func_returns(f):
        n = g.node_of(ret)
        if g.loop_of.get(n) is None and not isinstance(ret.value, ast.Call):
            r.site(L.site(f, ret, "result"))
            tr = p.trace(ret.value)
            if all(x == (f"param:{state}", "call:copy") or "call:apply" in x or any(s.endswith(":apply") for s in x) for x in tr):
                r.ok({"returns": "the accumulated copy"})
            else:
                r.fail(Finding("C16.guard", f, "result", f"apply_actions returns {sorted(tr)[:3]}", node=ret))
    r.require_sites(6)
    return r


def rule_export(repo: Repo, rid: str, cls: str, keyword: str) -> RuleResult:
    from .. import strshape as S
    from . import _c10_util as U
    r = RuleResult(rid, f"{cls}.export: first state, then per triplet one '({keyword} ...)' line followed by the post-state; whole list wrapped in one pair of parentheses",
                   "one step per (joint) action with chained states")
    f = U.deep(repo, f"{cls}.export")      # helpers in place, list building written as loops with one append per line
    p = L.prov(repo, f)
    r.site(f.qn)
    rets = [x for x in L.func_returns(f) if x.value is not None]
    if len(rets) != 1:
        raise AnalysisError(f"{cls}.export: one return of the list of lines expected")
    ev = S.Evaluator(repo, f)
    try:
        seq = ev.sequence(rets[0].value)
    except S.NotInterpretable as ex:
        raise AnalysisError(f"{cls}.export: the construction of the returned lines is not interpreted ({ex})")

    def hole(n) -> str:
        try:
            tr = p.trace(n)
        except KeyError:
            return "?" + unparse(n, 30)
        trip = [x for x in tr if x[0] == "param:triplets"]
        if trip and all("item:0" in x and "attr:previous_state" in x and x[-1] == "call:serialize" for x in trip):
            return "first_state"
        if trip and all("elem" in x and "attr:next_state" in x and x[-1] == "call:serialize" for x in trip):
            return "next_state"
        if trip and all(x[1:3] == ("elem", "attr:operator") for x in trip):
            return "operator"
        if trip and all(x[1:4] == ("elem", "attr:joint_action", "elem") for x in trip):
            return "member"
        return "?" + unparse(n, 30)

    got = S.render_seq(seq, hole)
    op_line = {"operator:": "(operator: {operator})\n", "operators:": "(operators: [{member}]*< >)\n"}[keyword]
    want = ["({first_state}", "[", op_line, "{next_state}", "]*", "wrap-last:_)"]
    loops = [it.loop for it in seq.items if isinstance(it, S.RepItems)]
    over_triplets = len(loops) == 1 and all(x == ("param:triplets",) for x in p.trace(loops[0].iter)) and not getattr(loops[0], "guards", None) \
        and not loops[0].conds
    if got == want and over_triplets and not seq.ordered:
        r.ok({"lines": got})
    elif got == want:
        r.fail(Finding(rid, f, "iterates", "export does not emit one step for every triplet, in order", node=rets[0]))
    else:
        r.fail(Finding(rid, f, "layout", f"the exported lines are {got} (expected {want})", node=rets[0]))
    r.require_sites(1)
    return r


def rule_objects(repo: Repo) -> RuleResult:
    r = RuleResult("C16.objects", "every Operator that library code applies is constructed with the problem objects",
                   "without them _apply_universal_effects returns early and forall effects are skipped")
    op_init = repo.find_method("Operator", "__init__")
    from ..inline import flatten
    for f0 in repo.all_funcs():
        f = flatten(repo, f0)
        ctors = [c for c in L.calls_in(f.node) if callee_name(c) == "Operator" and isinstance(c.func, ast.Name)]
        if not ctors:
            continue
        p = L.prov(repo, f)
        # is the constructed operator applied in this function (directly or via a name)?
        applies = [c for c in L.calls_in(f.node) if callee_name(c) == "apply" and isinstance(c.func, ast.Attribute)
                   and any(x[0] == "fresh:Operator" for x in p.trace(c.func.value))]
        if not applies:
            continue
        for c in ctors:
            used = any(any(x[0] == "fresh:Operator" for x in p.trace(a.func.value)) for a in applies)
            if not used:
                continue
            r.site(L.site(f, c, "applied operator"))
            po = L.arg_of(c, op_init, "problem_objects")
            try:
                po_tr = p.trace(po) if po is not None else set()
            except KeyError:
                po_tr = set()
            # an inlined helper whose own `problem_objects` parameter was left at its default None counts as "without"
            if po is None or (isinstance(po, ast.Constant) and po.value is None) or (po_tr and all(x == ("const:None",) for x in po_tr)):
                r.fail(Finding("C16.objects", f, "ctor:Operator-without-problem_objects",
                               f"{unparse(c, 70)} is applied but was built without problem_objects: universal (forall) effects of the member are skipped", node=c))
            else:
                r.ok({"function": f.qn, "problem_objects": unparse(po)})
    r.require_sites(2)
    return r


def _name_atoms(items):
    """atoms of a regex (re._parser items) that can match a letter: yields (description, admits '-')"""
    import re._constants as RC
    for op, av in items:
        opn = str(op)
        if opn == "IN":
            word = any(str(o) == "CATEGORY" and str(a) in ("CATEGORY_WORD", "CATEGORY_UNI_WORD") for o, a in av) or \
                any(str(o) == "RANGE" and chr(a[0]).isalpha() for o, a in av)
            neg = any(str(o) == "NEGATE" for o, a in av)
            if word and not neg:
                dash = any(str(o) == "LITERAL" and a == ord("-") for o, a in av) or any(str(o) == "RANGE" and a[0] <= ord("-") <= a[1] for o, a in av)
                yield "character class", dash
        elif opn == "CATEGORY" and str(av) in ("CATEGORY_WORD", "CATEGORY_UNI_WORD"):
            yield "\\w", False
        elif opn in ("MAX_REPEAT", "MIN_REPEAT", "POSSESSIVE_REPEAT"):
            yield from _name_atoms(av[2])
        elif opn == "SUBPATTERN":
            yield from _name_atoms(av[3])
        elif opn == "BRANCH":
            for alt in av[1]:
                yield from _name_atoms(alt)
        elif opn in ("ASSERT", "ASSERT_NOT"):
            yield from _name_atoms(av[1])
        elif opn == "ATOMIC_GROUP":
            yield from _name_atoms(av)


def rule_regex(repo: Repo) -> RuleResult:
    """the pattern that cuts a joint action line into its members must admit every PDDL name: letters, digits, '_' and '-' in the
    action name AND in every argument"""
    import re._parser as RP
    r = RuleResult("C16.regex", "every name position of JOINT_ACTION_REGEX admits '-' (PDDL names such as robot-1, pos-1-2)",
                   "a member whose arguments contain a hyphen is a member all the same: it is executed and listed")
    m = repo.module("multi_agent.multi_agent_trajectory_exporter")
    ok, pat = repo.const_value(m.name, "JOINT_ACTION_REGEX")
    owner = (m.short, "JOINT_ACTION_REGEX", str(m.path))
    r.site(f"{m.short}.JOINT_ACTION_REGEX")
    if not ok or not isinstance(pat, str):
        raise AnalysisError("JOINT_ACTION_REGEX: constant pattern not found")
    try:
        tree = RP.parse(pat)
    except Exception as ex:
        raise AnalysisError(f"JOINT_ACTION_REGEX does not parse: {ex}")
    atoms = list(_name_atoms(list(tree)))
    if not atoms:
        raise AnalysisError("JOINT_ACTION_REGEX: no name-matching atom found")
    bad = [d for d, dash in atoms if not dash]
    if bad:
        r.fail(Finding("C16.regex", owner, "name-without-hyphen", f"{pat!r}: {bad[0]} matches name characters but not '-': a member such as (move robot-1 pos-1-2) "
                       f"is not recognised and silently left out of the joint action"))
    else:
        r.ok({"pattern": pat, "name_atoms": len(atoms)})
    r.require_sites(1)
    return r


def rule_joint(repo: Repo) -> RuleResult:
    """one joint action = ONE call of apply_actions on the triplet's previous state with all executed members: the joint applicability
    test then sees every member in the state before the step (a member must not be enabled by another member of the same step)"""
    r = RuleResult("C16.joint", "the triplet constructor hands the previous state itself and the whole member list to apply_actions",
                   "all members are tested in the state before the joint action; one step per joint action")
    f = L.fn(repo, "MultiAgentTrajectoryExporter.create_multi_agent_triplet")
    p = L.prov(repo, f)
    ap = repo.func("multi_agent.common::apply_actions")
    calls = [c for c in L.calls_in(f.node) if callee_name(c) == "apply_actions"]
    if not calls:
        raise AnalysisError("create_multi_agent_triplet: no call of apply_actions found")
    pm = L.parents_of(f)
    for c in calls:
        r.site(L.site(f, c, "joint application"))
        st = L.arg_of(c, ap, "current_state", 1)
        members = L.arg_of(c, ap, "joint_action", 2)
        if st is None or members is None:
            raise AnalysisError("create_multi_agent_triplet: arguments of apply_actions not recognised")
        ts = p.trace(st)
        from_outcome = any(any(s_.endswith(":apply_actions") for s_ in x) for x in ts)
        from_prev = any(x[0] == "param:previous_state" for x in ts)
        in_member_loop = False
        cur = c
        while cur in pm:
            cur = pm[cur]
            if isinstance(cur, (ast.For, ast.While)):
                in_member_loop = True
        if from_outcome or not from_prev:
            r.fail(Finding("C16.joint", f, "state:accumulated", f"apply_actions is handed {unparse(st, 40)}, which is (also) the outcome of applying other members: "
                           f"a member is then tested in a state that earlier members of the same joint action have changed", node=c))
        elif in_member_loop:
            r.fail(Finding("C16.joint", f, "per-member-call", "apply_actions is called inside a loop of the triplet constructor: the joint action is split into several applications", node=c))
        else:
            r.ok({"state": "previous_state", "members": unparse(members, 40)})
    r.require_sites(1)
    return r


def rules(repo: Repo, tier: str) -> List[RuleResult]:
    return [rule_guard(repo), rule_regex(repo),
            c04.rule_thread(repo, "C16.thread", "MultiAgentTrajectoryExporter.parse_plan", "create_multi_agent_triplet", init_fn="create_initial_state"),
            rule_export(repo, "C16.export", "MultiAgentTrajectoryExporter", "operators:"),
            rule_objects(repo), rule_joint(repo)] + _member_rules(repo)


def _member_rules(repo: Repo) -> List[RuleResult]:
    """a joint action acts like its members: every member is applied by Operator.apply (with allow_inapplicable_actions=True
    after the joint applicability test), so the conditional-effect guard and the copy discipline of apply are part of C16"""
    from . import c03
    return [c03.rule_antecedent(repo).as_rule("C16.member.antecedent"), c03.rule_copy(repo).as_rule("C16.member.copy")]
