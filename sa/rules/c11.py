"""C11 -- the S-expression reader returns the text's parenthesis structure, all of it."""
from __future__ import annotations

import ast
import re
import warnings
from typing import List, Optional

with warnings.catch_warnings():
    warnings.simplefilter("ignore")
    import re._parser as sre_parse  # type: ignore
    import re._constants as sre_c  # type: ignore

from .. import cfg as C
from .. import lib as L
from ..core import AnalysisError, FuncInfo, Repo, unparse
from ..prov import callee_name
from ..report import Finding, RuleResult

TK = "lisp_parsers.pddl_tokenizer"
WHITESPACE = {" ", "\t", "\n", "\r", "\f", "\v"}

EXPLANATION = (
    "C11.pipeline: on the def-use chain from the input text to the token deque no separator character is deleted "
    "(replace(<whitespace>, '')), lower() is applied, both parentheses are padded with blanks on both sides, the split is on "
    "arbitrary whitespace, comments are removed from ';' to the end of the line (regex AST: literal ';' followed by a repeat of "
    "'any character but newline', replaced by '') before tokenising, and both input modes (file / string) feed the same tokenize(). "
    "C11.eof: parse() must reject text that continues after the top-level form (a test of the remaining tokens that raises). "
    "C11.reader: read_from_tokens raises on empty input and on a stray ')', the list branch appends the recursive result until the "
    "matching ')' and consumes it, an atom is returned unchanged."
)
UNDECIDED = "nothing essential beyond running it; still, these are necessary conditions, not an equivalence proof of the reader"


def rule_pipeline(repo: Repo) -> RuleResult:
    r = RuleResult("C11.pipeline", "text -> tokens: no separator deleted, lower-cased, parentheses padded, whitespace split, ';' comments cut",
                   "invariant under layout, comments and case; distinct tokens never merge or split")
    mod = repo.module(TK)
    funcs = [f for f in repo.all_funcs() if f.mod is mod]
    init = repo.func("PDDLTokenizer.__init__")
    tok = repo.func("PDDLTokenizer.tokenize")
    # (1) no deletion of whitespace
    for f in funcs:
        for c in L.calls_in(f.node):
            if isinstance(c.func, ast.Attribute) and c.func.attr == "replace" and len(c.args) >= 2 and \
                    all(isinstance(a, ast.Constant) and isinstance(a.value, str) for a in c.args[:2]):
                a, b = c.args[0].value, c.args[1].value
                r.site(L.site(f, c, "replace"))
                if a and set(a) <= WHITESPACE and b == "":
                    r.fail(Finding("C11.pipeline", f, f"deletes-separator:{a!r}", f"{unparse(c, 60)} deletes the separator {a!r}: the tokens on both sides merge "
                                   f"('(a<TAB>b)' reads as ['ab'])", node=c))
                elif a in ("(", ")"):
                    if b.strip() == a and b.startswith(" ") and b.endswith(" "):
                        r.ok({"pads": a, "with": b})
                    else:
                        r.fail(Finding("C11.pipeline", f, f"padding:{a}", f"{a!r} is replaced by {b!r}: a parenthesis is not separated from its neighbours on both sides", node=c))
                else:
                    r.ok({"replace": [a, b]})
    # (2) the chain in tokenize
    p = L.prov(repo, tok)
    exts = [c for c in L.calls_in(tok.node) if isinstance(c.func, ast.Attribute) and c.func.attr in ("extend", "append", "extendleft")]
    if not exts:
        raise AnalysisError("tokenize: the statement that adds tokens to the deque was not recognised")
    r.site(tok.qn + " [chain]")
    tr = p.trace(exts[0].args[0])
    src = [x for x in tr if x[0] == "self" and "attr:pddl_file_content" in x]
    scans = []
    for c in L.calls_in(tok.node):
        pat = _scan_pattern(repo, tok, c)
        if pat is not None:
            scans.append((c, pat))
    if not src:
        r.fail(Finding("C11.pipeline", tok, "chain:source", "tokens do not derive from self.pddl_file_content"))
    elif scans:
        # second idiom: tokens are the matches of a scanning regex  ( [()] | <token class>+ )
        problems = _scan_regex_problems(scans[0][1])
        # separators that were already normalised away upstream (replace / split on that character) cannot reach the scan
        handled = set()
        for fn_ in funcs:
            for c_ in L.calls_in(fn_.node):
                if isinstance(c_.func, ast.Attribute) and c_.func.attr in ("replace", "split") and c_.args and isinstance(c_.args[0], ast.Constant) \
                        and isinstance(c_.args[0].value, str) and len(c_.args[0].value) == 1:
                    handled.add(c_.args[0].value)
                if isinstance(c_.func, ast.Attribute) and c_.func.attr == "splitlines":
                    handled |= {"\n", "\r"}
                if isinstance(c_.func, ast.Attribute) and c_.func.attr == "readlines":
                    handled.add("\n")
        names = {"\t": "tab", "\n": "newline", "\r": "carriage return", " ": "blank"}
        problems = [p_ for p_ in problems if not any(p_.endswith("a " + names[h]) for h in handled if h in names)]
        lowered = any("call:lower" in x for x in src)
        comment_ok = any(_is_comment_regex(c.args[0].value) for c in L.calls_in(tok.node)
                         if ast.unparse(c.func) in ("re.sub", "sub") and len(c.args) >= 3 and isinstance(c.args[0], ast.Constant)) or \
            any(isinstance(c.func, ast.Attribute) and c.func.attr in ("partition", "split") and c.args and isinstance(c.args[0], ast.Constant) and c.args[0].value == ";"
                for c in L.calls_in(tok.node))
        if not lowered:
            problems.append("lower() is not applied")
        if not comment_ok:
            problems.append("';' comments are not removed")
        if problems:
            r.fail(Finding("C11.pipeline", tok, "scan-regex:" + "/".join(sorted({p_.split(":")[0] for p_ in problems})),
                           f"tokens are the matches of {scans[0][1]!r}: {problems}", node=scans[0][0]))
        else:
            r.ok({"chain": "regex scan", "pattern": scans[0][1]})
    else:
        need = {"lower": any("call:lower" in x for x in src), "split": any("call:split" in x for x in src),
                "pad(": False, "pad)": False, "comment": False}
        for c in L.calls_in(tok.node):
            if isinstance(c.func, ast.Attribute) and c.func.attr == "replace" and c.args and isinstance(c.args[0], ast.Constant):
                if c.args[0].value == "(":
                    need["pad("] = True
                if c.args[0].value == ")":
                    need["pad)"] = True
        # split on arbitrary whitespace: split() with no argument
        splits = [c for c in L.calls_in(tok.node) if isinstance(c.func, ast.Attribute) and c.func.attr == "split"]
        ws_split = any(not c.args and not c.keywords for c in splits)
        # comment removal
        subs = [c for c in L.calls_in(tok.node) if ast.unparse(c.func) in ("re.sub", "sub")]
        comment_ok = False
        for c in subs:
            if len(c.args) >= 3 and isinstance(c.args[0], ast.Constant) and isinstance(c.args[1], ast.Constant) and c.args[1].value == "":
                comment_ok = _is_comment_regex(c.args[0].value)
        for c in splits:
            if c.args and isinstance(c.args[0], ast.Constant) and c.args[0].value == ";":
                comment_ok = True  # line.split(';')[0] idiom
        for c in L.calls_in(tok.node):
            if isinstance(c.func, ast.Attribute) and c.func.attr == "partition" and c.args and isinstance(c.args[0], ast.Constant) and c.args[0].value == ";":
                comment_ok = True
        need["comment"] = comment_ok and any(any(s.startswith("arg2:sub") or s in ("call:partition",) or s == "call:split" for s in x) for x in src)
        missing = [k for k, v in need.items() if not v] + ([] if ws_split else ["whitespace-split"])
        if missing:
            r.fail(Finding("C11.pipeline", tok, f"chain:{'/'.join(missing)}", f"tokenisation chain lacks {missing}"), {"chain": need})
        else:
            r.ok({"chain": sorted(need), "split": "str.split() on arbitrary whitespace"})
    # (3) both input modes feed the same attribute
    r.site(init.qn + " [input modes]")
    stores = [n for n in ast.walk(init.node) if isinstance(n, ast.Assign) and any(isinstance(t, ast.Attribute) and t.attr == "pddl_file_content" for t in n.targets)]
    pi = L.prov(repo, init)
    roots = set()
    for s in stores:
        for x in pi.trace(s.value):
            if x[0].startswith("param:"):
                roots.add(x[0])
    if {"param:file_path", "param:pddl_str"} <= roots:
        r.ok({"modes": sorted(roots)})
    else:
        r.fail(Finding("C11.pipeline", init, "input-modes", f"pddl_file_content is fed from {sorted(roots)} only"))
    r.require_sites(3)
    return r


def _scan_pattern(repo: Repo, f: FuncInfo, c: ast.Call) -> Optional[str]:
    """pattern string of re.findall(P, ..) / re.finditer(P, ..) / <compiled>.findall(..) where <compiled> = re.compile(P)"""
    fn = ast.unparse(c.func)
    if fn in ("re.findall", "re.finditer") and c.args and isinstance(c.args[0], ast.Constant) and isinstance(c.args[0].value, str):
        return c.args[0].value
    if isinstance(c.func, ast.Attribute) and c.func.attr in ("findall", "finditer"):
        recv = c.func.value
        cands: List[ast.AST] = []
        if isinstance(recv, ast.Attribute) and isinstance(recv.value, ast.Name) and f.cls:
            for st in repo.classes[f.cls].node.body:
                if isinstance(st, ast.Assign) and any(isinstance(t, ast.Name) and t.id == recv.attr for t in st.targets):
                    cands.append(st.value)
        if isinstance(recv, ast.Name):
            node = repo.const_node(f.mod.name, recv.id)
            if node is not None:
                cands.append(node)
        for v in cands:
            if isinstance(v, ast.Call) and ast.unparse(v.func) in ("re.compile", "compile") and v.args and isinstance(v.args[0], ast.Constant):
                return v.args[0].value
    return None


def _scan_regex_problems(pat: str) -> List[str]:
    """a scanning token pattern must (a) match each parenthesis as a token of its own and (b) never let a token contain
    whitespace or a parenthesis"""
    out: List[str] = []
    with warnings.catch_warnings():
        warnings.simplefilter("ignore")
        tree = sre_parse.parse(pat)
    items = list(tree)
    alts = [list(a) for a in items[0][1][1]] if len(items) == 1 and items[0][0] == sre_c.BRANCH else [items]
    paren_alt = False
    for alt in alts:
        if len(alt) == 1 and alt[0][0] == sre_c.IN and {a for o, a in alt[0][1] if o == sre_c.LITERAL} == {40, 41}:
            paren_alt = True
            continue
        if len(alt) == 1 and alt[0][0] == sre_c.LITERAL and alt[0][1] in (40, 41):
            paren_alt = True
            continue
        for op, av in alt:
            if op in (sre_c.MAX_REPEAT, sre_c.MIN_REPEAT):
                for o, a in av[2]:
                    if o == sre_c.IN:
                        neg = any(x == sre_c.NEGATE for x, _ in a)
                        members = [(x, y) for x, y in a if x != sre_c.NEGATE]
                        if neg:
                            excluded_ws = any(x == sre_c.CATEGORY and y == sre_c.CATEGORY_SPACE for x, y in members)
                            lits = {y for x, y in members if x == sre_c.LITERAL}
                            for ch, name in ((32, "blank"), (9, "tab"), (10, "newline"), (13, "carriage return")):
                                if not excluded_ws and ch not in lits:
                                    out.append(f"separator-in-token: a token may contain a {name}")
                            for ch in (40, 41):
                                if ch not in lits:
                                    out.append("paren-in-token: a token may contain a parenthesis")
                        else:
                            if any(x == sre_c.CATEGORY and y in (sre_c.CATEGORY_SPACE, sre_c.CATEGORY_NOT_WORD, sre_c.CATEGORY_NOT_DIGIT) for x, y in members):
                                out.append("separator-in-token: the token class contains whitespace")
                    elif o == sre_c.ANY:
                        out.append("separator-in-token: '.' inside a token")
                    elif o == sre_c.CATEGORY and a == sre_c.CATEGORY_NOT_SPACE:
                        out.append("paren-in-token: \\S+ lets a token contain a parenthesis")
    if not paren_alt:
        out.append("paren-token: parentheses are not matched as tokens of their own")
    return sorted(set(out))


def _is_comment_regex(pat: str) -> bool:
    """literal ';' followed by a (greedy or lazy) repeat of ANY (no DOTALL), to the end of the line"""
    try:
        with warnings.catch_warnings():
            warnings.simplefilter("ignore")
            tree = sre_parse.parse(pat)
    except Exception:
        return False
    items = list(tree)
    if len(items) < 2:
        return False
    op0, av0 = items[0]
    if not (op0 == sre_c.LITERAL and av0 == ord(";")):
        return False
    op1, av1 = items[1]
    if op1 not in (sre_c.MAX_REPEAT, sre_c.MIN_REPEAT):
        return False
    lo, hi, sub = av1
    subitems = list(sub)
    if len(subitems) != 1 or subitems[0][0] != sre_c.ANY:
        return False
    if hi != sre_c.MAXREPEAT:
        return False
    rest = items[2:]
    return all(op == sre_c.AT for op, _ in rest)


def rule_eof(repo: Repo) -> RuleResult:
    r = RuleResult("C11.eof", "parse() rejects text that continues after the closing parenthesis of the top-level form",
                   "rejected with an error rather than truncated")
    f = repo.func("PDDLTokenizer.parse")
    g = C.cfg_of(f.node)
    r.site(f.qn)
    raises = [n for n in g.nodes() if g.kind[n] in ("raise", "assert")]
    tested = False
    for n in g.nodes():
        st = g.stmt[n]
        if isinstance(st, (ast.If, ast.Assert)):
            t = st.test
            if any(isinstance(x, ast.Call) and callee_name(x) == "len" for x in ast.walk(t)) or any(isinstance(x, ast.Name) for x in ast.walk(t)):
                if isinstance(st, ast.Assert) or any(isinstance(s, ast.Raise) for s in C.stmts_in(st.body)) or any(isinstance(s, ast.Raise) for s in C.stmts_in(st.orelse)):
                    tested = True
    if tested and raises:
        r.ok({"end_of_input_check": True})
    else:
        r.fail(Finding("C11.eof", f, "missing:end-of-input-check", "parse() returns the first form and never looks at the remaining tokens: '(a b))' and "
                       "'(a b) (c d)' are accepted and the tail is ignored"))
    r.require_sites(1)
    return r


def rule_reader(repo: Repo) -> RuleResult:
    r = RuleResult("C11.reader", "read_from_tokens: empty input and stray ')' raise; '(' collects sub-forms until the matching ')' and consumes it; atoms unchanged",
                   "the nested-list structure of the parenthesised tokens")
    f = repo.func("PDDLTokenizer.read_from_tokens")
    p = L.prov(repo, f)
    g = C.cfg_of(f.node)
    tokp = [x for x in f.params if x != f.self_name][0]

    def matcher(e):
        if isinstance(e, ast.Compare) and len(e.ops) == 1 and isinstance(e.comparators[0], ast.Constant):
            c = e.comparators[0].value
            l = e.left
            if isinstance(l, ast.Call) and callee_name(l) == "len" and c == 0:
                return "empty" if isinstance(e.ops[0], ast.Eq) else "!empty"
            if isinstance(l, ast.Name) and c in ("(", ")"):
                key = "open" if c == "(" else "close"
                return key if isinstance(e.ops[0], ast.Eq) else "!" + key
        if isinstance(e, ast.UnaryOp) and isinstance(e.op, ast.Not) and isinstance(e.operand, ast.Name) and e.operand.id == tokp:
            return "empty"
        return None

    G = L.Guards(f, matcher)
    raises = [n for n in g.nodes() if g.kind[n] == "raise"]
    rets = [n for n in g.nodes() if g.kind[n] == "return"]
    r.site(f.qn + " [empty]")
    seen = G.reach({"empty": True})
    if any(n in seen for n in raises) and not any(n in seen for n in rets):
        r.ok({"empty_input": "raises"})
    else:
        r.fail(Finding("C11.reader", f, "empty-input", "empty input does not raise"))
    r.site(f.qn + " [stray close]")
    seen = G.reach({"empty": False, "open": False, "close": True})
    if any(n in seen for n in raises) and not any(n in seen for n in rets):
        r.ok({"stray_close": "raises"})
    else:
        r.fail(Finding("C11.reader", f, "stray-close", "a stray ')' does not raise"))
    r.site(f.qn + " [atom]")
    seen = G.reach({"empty": False, "open": False, "close": False})
    atom_rets = [g.stmt[n] for n in rets if n in seen]
    ok = bool(atom_rets) and all(any("call:popleft" in x or "call:pop" in x for x in p.trace(x_.value)) and
                                 not any("call:lower" in x or "call:strip" in x for x in p.trace(x_.value)) for x_ in atom_rets)
    if ok and not any(n in seen for n in raises):
        r.ok({"atom": "the popped token itself"})
    else:
        r.fail(Finding("C11.reader", f, "atom", "an atom token is not returned unchanged"))
    r.site(f.qn + " [list]")
    seen = G.reach({"empty": False, "open": True, "close": False})
    loops = [n for n in g.nodes() if g.kind[n] == "loop" and n in seen and isinstance(g.stmt[n], ast.While)]
    ok = False
    if loops:
        w = g.stmt[loops[0]]
        cond_ok = isinstance(w.test, ast.Compare) and isinstance(w.test.ops[0], ast.NotEq) and isinstance(w.test.comparators[0], ast.Constant) and \
            w.test.comparators[0].value == ")" and isinstance(w.test.left, ast.Subscript) and isinstance(w.test.left.slice, ast.Constant) and w.test.left.slice.value == 0
        apps = [c for c in L.calls_in(w) if isinstance(c.func, ast.Attribute) and c.func.attr == "append" and c.args and isinstance(c.args[0], ast.Call)
                and callee_name(c.args[0]) == f.name]
        after = C.reachable_from(g, loops[0], follow=lambda a, b, l: not (a == loops[0] and l == "iter")) - {loops[0]}
        pops = [c for c in L.calls_in(f.node) if isinstance(c.func, ast.Attribute) and c.func.attr == "popleft" and g.node_containing(c) in after
                and g.loop_of.get(g.node_containing(c)) is None]
        list_rets = [g.stmt[n] for n in rets if n in after]
        ret_ok = bool(list_rets) and all(isinstance(x.value, ast.Name) and x.value.id == (apps[0].func.value.id if apps and isinstance(apps[0].func.value, ast.Name) else "") for x in list_rets)
        ok = cond_ok and len(apps) == 1 and bool(pops) and ret_ok
    if ok:
        r.ok({"list": "while tokens[0] != ')': append(read_from_tokens(tokens)); popleft(); return list"})
    else:
        r.fail(Finding("C11.reader", f, "list-branch", "the '(' branch does not collect every sub-form up to the matching ')' and consume it"))
    # parse() reads from tokenize()
    pf = repo.func("PDDLTokenizer.parse")
    pp = L.prov(repo, pf)
    r.site(pf.qn)
    ok = False
    for c in L.calls_in(pf.node):
        if callee_name(c) == "read_from_tokens" and c.args and any(x == ("self", "call:tokenize") for x in pp.trace(c.args[0])):
            ok = True
    if ok:
        r.ok({"parse": "read_from_tokens(self.tokenize())"})
    else:
        r.fail(Finding("C11.reader", pf, "parse-source", "parse() does not read the tokens produced by tokenize()"))
    r.require_sites(5)
    return r


def rules(repo: Repo, tier: str) -> List[RuleResult]:
    return [rule_pipeline(repo), rule_eof(repo), rule_reader(repo)]
