"""C11 -- the S-expression reader returns the text's parenthesis structure, all of it."""
from __future__ import annotations

import ast
import copy
import re
import warnings
from typing import Dict, List, Optional, Set, Tuple

with warnings.catch_warnings():
    warnings.simplefilter("ignore")
    import re._parser as sre_parse  # type: ignore
    import re._constants as sre_c  # type: ignore

from .. import cfg as C
from .. import lib as L
from ..core import AnalysisError, FuncInfo, Repo, unparse
from ..prov import callee_name
from ..report import Finding, RuleResult
from . import _c11_util as U

TK = "lisp_parsers.pddl_tokenizer"
INIT, TOKENIZE, READ, PARSE = "PDDLTokenizer.__init__", "PDDLTokenizer.tokenize", "PDDLTokenizer.read_from_tokens", "PDDLTokenizer.parse"
WHITESPACE = {" ", "\t", "\n", "\r", "\f", "\v"}
MUTATORS = ("popleft", "pop", "clear", "remove", "rotate", "reverse", "append", "appendleft", "extend", "extendleft", "insert", "sort")
WS4 = {" ": "blank", "\t": "tab", "\n": "newline", "\r": "carriage return"}

EXPLANATION = (
    "C11.pipeline: the value flow from the constructor parameters (file_path -> open / read ..., pddl_str) through the stored attribute to "
    "every element of the container that tokenize() returns is evaluated as chains of string operations (sa/rules/_c11_util.py: "
    "helpers inlined or evaluated in place, intermediate names, loops / comprehensions / generators / map, module or class constants, "
    "compiled patterns, f-strings / str.format of constants are transparent; `for T in <table fixed by the source>: x = F(x, T)` and "
    "functools.reduce over such a table are unrolled in order, rows being tuples, dict items, characters of a constant string or NamedTuple / "
    "dataclass records; function values -- lambdas, str.<method>, repository functions, methodcaller / attrgetter / itemgetter / partial, "
    "<compiled>.sub, entries of a dict of callables -- are applied where they are called or mapped). On every chain: no separator is deleted (replace(<whitespace>, ''), ''.join of "
    "pieces without line ends, re.sub(<whitespace>, '')), no operation rewrites, drops or reorders tokens, lower() is applied, ';' "
    "comments are cut to the end of the line before tokenising (regex AST: literal ';' followed by an unbounded repeat of 'any character "
    "but newline', no DOTALL, '$' only with MULTILINE on multi-line text, applied per line or on text whose newlines still end the "
    "lines; or partition(';')[0] / split(';')[0] / x[:x.index(';')] per line; a test `';' in line` splits the judgement into the "
    "world with and the world without a comment), and the tokens are either the whitespace split() of text in which both parentheses "
    "were padded with blanks on both sides (replace, translate table or re.sub with a back-reference), or the matches of a scanning "
    "regex that makes each parenthesis a token of its own and excludes every separator that can still be present at that point of the "
    "chain (separators normalised away upstream are tracked along the chain). A line is kept out of the token stream only by "
    "comment-line / blank-line tests (guard valuation over the filters of comprehensions, filter() / filterfalse() -- predicate functions are evaluated in their own body "
    "-- and of the loops that add tokens; a generator helper may not finish without yielding, a helper may not return an empty value, "
    "for any other reason); "
    "an iterator that a loop consumes is not advanced by next() elsewhere; "
    "both input modes (file / string) reach tokenize(), file_path through open() / read_text() and pddl_str as the text itself. "
    "Every element of the returned container is one token (not a line's list of tokens added as one element); no turn of a loop over the "
    "stored lines can end the walk; under (only file_path given) and (only pddl_str given) the constructor does not raise and stores lines "
    "computed from the argument that is given. "
    "C11.eof: parse() must reject text that continues after the top-level form: after read_from_tokens a test of the same token "
    "container for emptiness under which 'tokens remain' raises and does not return. "
    "C11.reader: guard valuation of read_from_tokens (private helpers inlined; before that, exact local rewrites in _c11_util.prepared: a "
    "local name bound once to a function value -- partial(getitem, tokens, 0), a lambda, a one-expression nested def, tokens.popleft, "
    "partial(self.read_from_tokens, tokens) -- is replaced by that value where it is used, `for T in iter(F, S)` and comprehensions over it "
    "become `while True: t = F(); if t == S: <else part>; break; ...`, a while test that calls a private helper becomes a test inside the "
    "loop, `match` over literal patterns becomes the if chain, `X in (c1, c2)` the comparisons, `L = L + [e]` / `[*L, e]` on an un-aliased "
    "local list `L.append(e)`; fields of private records that hold the token container count as the container) over (input empty, first "
    "token is '(' / ')', next token "
    "is ')'): empty input raises (test or IndexError handler around the first access), a stray ')' raises, an atom is returned as the "
    "consumed token itself (table-driven dispatch -- TABLE.get(token[, default]) / TABLE[token] / getattr(self, NAMES[token]) over a dict "
    "display with constant keys, `token in TABLE`, `handler is None`, try / except KeyError around the lookup -- is first rewritten into the "
    "equivalent chain of token == <key> tests; operator.eq / ne / not_ / truth / contains count as the tests they are; a function value "
    "that stays uninterpreted is an ANALYSIS-ERROR), the '(' case consumes it, appends the result of the recursive call on the same tokens exactly once per "
    "iteration exactly while the next token is not ')' (no second recursive call whose result is dropped, no other mutation of the container), "
    "consumes that ')' and returns that very list; parse() hands the unmodified "
    "tokens of tokenize() to the reader."
)
UNDECIDED = "nothing essential beyond running it; still, these are necessary conditions, not an equivalence proof of the reader"


# --------------------------------------------------------------------------- regular expressions (AST of the pattern, never executed)
def _parse_re(pat) -> Optional[Tuple[list, int]]:
    if not isinstance(pat, str):
        return None
    try:
        with warnings.catch_warnings():
            warnings.simplefilter("ignore")
            tree = sre_parse.parse(pat)
    except Exception:
        return None
    return list(tree), tree.state.flags


def _flag_names(v: Optional[U.V]) -> Optional[Set[str]]:
    """names of the re flags in a flags argument (None: not interpretable)"""
    if v is None:
        return set()
    if v.kind == "const" and v.value in (0, None):
        return set()
    if v.kind == "const" and isinstance(v.value, int):
        out = set()
        for name, bit in (("I", re.I), ("M", re.M), ("S", re.S), ("X", re.X), ("A", re.A)):
            if v.value & bit:
                out.add(name)
        return out
    if v.kind == "leaf" and v.name.startswith("global:re."):
        n = v.name.rsplit(".", 1)[1]
        table = {"IGNORECASE": "I", "MULTILINE": "M", "DOTALL": "S", "VERBOSE": "X", "ASCII": "A", "UNICODE": "U", "NOFLAG": ""}
        n = table.get(n, n)
        return {n} - {""} if n in ("I", "M", "S", "X", "A", "U", "") else None
    if v.kind == "binop" and v.name == "BitOr":
        a, b = _flag_names(v.parts[0]), _flag_names(v.parts[1])
        return None if a is None or b is None else a | b
    return None


def _ws_only_item(op, av) -> bool:
    """a regex item that can only match whitespace"""
    if op == sre_c.LITERAL:
        return chr(av) in WHITESPACE
    if op == sre_c.IN:
        return bool(av) and all((o == sre_c.LITERAL and chr(a) in WHITESPACE) or (o == sre_c.CATEGORY and a == sre_c.CATEGORY_SPACE) for o, a in av)
    if op in (sre_c.MAX_REPEAT, sre_c.MIN_REPEAT):
        return all(_ws_only_item(o, a) for o, a in av[2])
    return False


def _comment_regex(pat, flags: Set[str], multi: bool) -> Tuple[bool, str]:
    """literal ';' followed by a repeat of 'anything but a newline' to the end of the line (optionally preceded by whitespace)"""
    pr = _parse_re(pat)
    if pr is None:
        return False, "the pattern cannot be parsed"
    items, inline = pr
    dotall = "S" in flags or bool(inline & re.S)
    multiline = "M" in flags or bool(inline & re.M)
    if "X" in flags:
        return False, "VERBOSE pattern is not interpreted"
    while items and items[0][0] in (sre_c.MAX_REPEAT, sre_c.MIN_REPEAT) and _ws_only_item(*items[0]):
        items = items[1:]
    if len(items) < 2 or not (items[0][0] == sre_c.LITERAL and items[0][1] == ord(";")):
        return False, "the pattern does not start with a literal ';'"
    op1, av1 = items[1]
    if op1 not in (sre_c.MAX_REPEAT, sre_c.MIN_REPEAT):
        return False, "';' is not followed by a repetition"
    lo, hi, sub = av1
    sub = list(sub)
    if lo != 0 or hi != sre_c.MAXREPEAT or len(sub) != 1:
        return False, "the repetition after ';' is bounded"
    o, a = sub[0]
    if o == sre_c.ANY:
        if dotall:
            return False, "'.' matches newlines (DOTALL): the comment swallows the following lines"
    elif o == sre_c.IN and a and a[0][0] == sre_c.NEGATE and {(x, y) for x, y in a[1:]} <= {(sre_c.LITERAL, 10), (sre_c.LITERAL, 13)} and (sre_c.LITERAL, 10) in a[1:]:
        pass
    elif o == sre_c.NOT_LITERAL and a == 10:
        pass
    else:
        return False, "the repetition after ';' does not run over every character up to the end of the line"
    rest = items[2:]
    if not all(op == sre_c.AT and av in (sre_c.AT_END, sre_c.AT_END_LINE, sre_c.AT_END_STRING) for op, av in rest):
        return False, "the pattern continues after the comment body"
    if op1 == sre_c.MIN_REPEAT and not rest:
        return False, "a lazy repetition without an end anchor matches the ';' only"
    if rest and multi and not multiline:
        return False, "'$' without MULTILINE on a multi-line text only matches on the last line"
    if rest and any(av == sre_c.AT_END_STRING for _o, av in rest) and multi:
        return False, "\\Z on a multi-line text only matches on the last line"
    return True, ""


def _pad_regex(pat, repl) -> Optional[Set[str]]:
    """re.sub(r'([()])', r' \\1 ', s): the set of parentheses that are padded on both sides (None: not this idiom)"""
    pr = _parse_re(pat)
    if pr is None or not isinstance(repl, str):
        return None
    items, _ = pr
    group = 0
    if len(items) == 1 and items[0][0] == sre_c.SUBPATTERN:
        group = items[0][1][0] or 0
        items = list(items[0][1][3])
    if len(items) != 1:
        return None
    op, av = items[0]
    if op == sre_c.LITERAL and chr(av) in "()":
        chars = {chr(av)}
    elif op == sre_c.IN and av and all(o == sre_c.LITERAL and chr(a) in "()" for o, a in av):
        chars = {chr(a) for _o, a in av}
    else:
        return None
    m = re.fullmatch(r"(\s+)(\\g<0>|\\g<(\d+)>|\\(\d+))(\s+)", repl)
    if not m:
        return set()
    ref = 0 if m.group(2) == "\\g<0>" else int(m.group(3) or m.group(4))
    if ref != 0 and ref != group:
        return set()
    return chars


def _ws_regex(pat) -> bool:
    pr = _parse_re(pat)
    return pr is not None and bool(pr[0]) and all(_ws_only_item(o, a) for o, a in pr[0])


def _scan_regex_problems(pat: str) -> List[str]:
    """a scanning token pattern must (a) match each parenthesis as a token of its own and (b) never let a token contain
    whitespace or a parenthesis"""
    out: List[str] = []
    pr = _parse_re(pat)
    if pr is None:
        return ["pattern: cannot be parsed"]
    items = pr[0]
    while len(items) == 1 and items[0][0] == sre_c.SUBPATTERN:      # one group around the whole pattern: findall returns the same text
        items = list(items[0][1][3])
    alts = [list(a) for a in items[0][1][1]] if len(items) == 1 and items[0][0] == sre_c.BRANCH else [items]
    paren_alt = False
    for alt in alts:
        while len(alt) == 1 and alt[0][0] == sre_c.SUBPATTERN:
            alt = list(alt[0][1][3])
        if len(alt) == 1 and alt[0][0] == sre_c.IN and {a for o, a in alt[0][1] if o == sre_c.LITERAL} == {40, 41} and all(o == sre_c.LITERAL for o, _a in alt[0][1]):
            paren_alt = True
            continue
        if len(alt) == 1 and alt[0][0] == sre_c.LITERAL and alt[0][1] in (40, 41):
            paren_alt = True
            continue
        for op, av in alt:
            if op in (sre_c.MAX_REPEAT, sre_c.MIN_REPEAT):
                for o, a in av[2]:
                    if o == sre_c.IN:
                        neg = any(x == sre_c.NEGATE for x, _ in a)
                        members = [(x, y) for x, y in a if x != sre_c.NEGATE]
                        if neg:
                            excluded_ws = any(x == sre_c.CATEGORY and y == sre_c.CATEGORY_SPACE for x, y in members)
                            lits = {y for x, y in members if x == sre_c.LITERAL}
                            for ch, name in ((32, "blank"), (9, "tab"), (10, "newline"), (13, "carriage return")):
                                if not excluded_ws and ch not in lits:
                                    out.append(f"separator-in-token: a token may contain a {name}")
                            for ch in (40, 41):
                                if ch not in lits:
                                    out.append("paren-in-token: a token may contain a parenthesis")
                        else:
                            if any(x == sre_c.CATEGORY and y in (sre_c.CATEGORY_SPACE, sre_c.CATEGORY_NOT_WORD, sre_c.CATEGORY_NOT_DIGIT) for x, y in members):
                                out.append("separator-in-token: the token class contains whitespace")
                            if any(x == sre_c.LITERAL and chr(y) in WHITESPACE for x, y in members):
                                out.append("separator-in-token: the token class contains whitespace")
                            if any(x == sre_c.CATEGORY and y in (sre_c.CATEGORY_NOT_SPACE, sre_c.CATEGORY_NOT_WORD, sre_c.CATEGORY_NOT_DIGIT) for x, y in members) or \
                                    any(x == sre_c.LITERAL and y in (40, 41) for x, y in members) or \
                                    any(x == sre_c.RANGE and y[0] <= 40 and y[1] >= 41 for x, y in members):
                                out.append("paren-in-token: the token class lets a token contain a parenthesis")
                    elif o == sre_c.NOT_LITERAL:
                        out.append("paren-in-token: a token may contain a parenthesis")
                        for ch, name in ((32, "blank"), (9, "tab"), (10, "newline"), (13, "carriage return")):
                            if ch != a:
                                out.append(f"separator-in-token: a token may contain a {name}")
                    elif o == sre_c.ANY:
                        out.append("separator-in-token: '.' inside a token")
                    elif o == sre_c.CATEGORY and a == sre_c.CATEGORY_NOT_SPACE:
                        out.append("paren-in-token: \\S+ lets a token contain a parenthesis")
    if not paren_alt:
        out.append("paren-token: parentheses are not matched as tokens of their own")
    return sorted(set(out))


# --------------------------------------------------------------------------- operator-module spellings of tests
_OPERATOR_CMP = {"operator.eq": ast.Eq, "operator.ne": ast.NotEq, "operator.lt": ast.Lt, "operator.le": ast.LtE, "operator.gt": ast.Gt, "operator.ge": ast.GtE,
                 "operator.is_": ast.Is, "operator.is_not": ast.IsNot, "operator.contains": ast.In,
                 "operator.__eq__": ast.Eq, "operator.__ne__": ast.NotEq, "operator.__contains__": ast.In}


def _with_operator_forms(repo: Repo, f: FuncInfo, base):
    """matcher that reads operator.eq(a, b) / ne / lt / ... / contains(a, b) / not_(x) / truth(x) as the comparison / negation they
    are and hands everything else to `base`"""
    flow = U.Flow(repo, f)
    synth: Dict[int, Optional[ast.AST]] = {}

    def canon(e: ast.Call) -> Optional[str]:
        try:
            return flow.canon(e.func, flow.p.node_of(e))
        except Exception:
            return None

    def matcher(e):
        if isinstance(e, ast.Call) and not e.keywords and 1 <= len(e.args) <= 2 and not any(isinstance(a, ast.Starred) for a in e.args):
            if id(e) not in synth:
                cn = canon(e)
                new: Optional[ast.AST] = None
                if cn in _OPERATOR_CMP and len(e.args) == 2:
                    a, b = e.args
                    if _OPERATOR_CMP[cn] is ast.In:
                        a, b = b, a
                    new = ast.copy_location(ast.Compare(left=a, ops=[_OPERATOR_CMP[cn]()], comparators=[b]), e)
                elif cn in ("operator.not_", "operator.truth", "operator.__not__") and len(e.args) == 1:
                    new = ast.copy_location(ast.UnaryOp(op=ast.Not() if cn != "operator.truth" else ast.UAdd(), operand=e.args[0]), e)
                synth[id(e)] = new
                synth[-id(e) - 1] = e          # (keeps the call alive: ids stay unique)
            new = synth[id(e)]
            if isinstance(new, ast.UnaryOp):
                inner = matcher(new.operand)
                if inner is None:
                    return None
                if isinstance(new.op, ast.UAdd):
                    return inner
                return inner[1:] if inner.startswith("!") else "!" + inner
            if new is not None:
                return base(new)
        return base(e)

    return matcher


# --------------------------------------------------------------------------- judging one chain  source -> ... -> token
class _NotInterpreted(Exception):
    pass


class _Chain:
    """abstract state while the operations of one chain are replayed from the root to the token"""

    def __init__(self):
        self.kind = "?"            # path | handle | str | list | matches | match
        self.multi = True          # the string may hold several lines of the input
        self.nl = True             # newlines still end the lines of a multi-line string
        self.str_nl = False        # a single line that still carries its newline
        self.elem_multi = False
        self.elem_nl = False
        self.elem_token = False
        self.token = False         # the string is one token
        self.ws: Set[str] = set(WS4)
        self.lowered = False
        self.comment = False
        self.comment_why = ""
        self.pad = {"(": False, ")": False}
        self.tokenised: Optional[str] = None
        self.bad_split: Optional[U.Op] = None
        self.scan: Optional[Tuple[str, Set[str], U.Op]] = None
        self.cut = False           # list produced by split(';') / partition(';'): element 0 is the line without its comment
        self.root = ""
        self.root_home: Optional[FuncInfo] = None
        self.via_file = False
        self.dead = False
        self.has_semi = False      # judged in the world where the line is known to contain a ';'
        self.problems: List[Tuple[str, str, U.Op]] = []
        self.replaces: List[Tuple[U.Op, object, object]] = []

    # -- helpers
    def _consts(self, op: U.Op, n: int) -> List[object]:
        vals = []
        for i in range(n):
            ok, v = U.const_of(op.arg(i))
            if not ok:
                raise _NotInterpreted(f"argument {i + 1} of {op.name}() on the token chain is not a constant ({unparse(op.v.node, 60)})")
            vals.append(v)
        return vals

    def _to_str(self, multi=None, token=False):
        self.kind = "str"
        if multi is not None:
            self.multi = multi
        self.token = token

    def problem(self, role: str, text: str, op: U.Op):
        self.problems.append((role, text, op))

    # -- replay
    def step(self, op: U.Op):
        k, name = op.kind, op.name
        if k == "root":
            self.root = name
            self.root_home = op.home
            self.kind, self.multi, self.nl = "str", True, True
            if name == "const" and op.v.value is None:
                self.dead = True       # a None placeholder (e.g. a cache attribute before it is filled) carries no tokens
            return
        if self.dead:
            return
        if k == "attr-store":
            return
        if k == "collect":
            if name == "one":
                self.elem_multi, self.elem_nl, self.elem_token = self.multi, self.str_nl, self.token
                self.kind = "list"
            return
        if k == "elem":
            if self.kind == "handle":
                self._to_str(multi=False)
                self.str_nl = True
            elif self.kind == "list":
                tok = self.elem_token
                self._to_str(multi=self.elem_multi, token=tok)
                self.str_nl = self.elem_nl
            elif self.kind == "matches":
                self.kind = "match"
            else:
                raise _NotInterpreted(f"iteration over a {self.kind} on the token chain ({unparse(op.v.node, 60)})")
            return
        if k == "item":
            idx = op.v.value
            if self.kind == "list" and self.cut:
                self.cut = False
                self._to_str(multi=self.elem_multi)
                self.str_nl = False
                if idx == 0 and not self.elem_multi:
                    self.comment = True
                elif idx == 0:
                    self.comment_why = "cutting at the first ';' of a multi-line text drops everything after the first comment"
                else:
                    self.comment_why = f"element {idx!r} of the text split at ';' is not the part before the comment"
                return
            if self.kind == "match" and idx == 0:
                self._to_str(multi=False, token=True)
                return
            if self.kind == "list" and idx is None:
                self.step(U.Op("elem", "", op.v))
                return
            if self.kind == "list":
                self.problem("alters-token:subscript", f"{unparse(op.v.node, 60)} keeps one element of the list of "
                                                       f"{'tokens' if self.elem_token else 'lines'} and drops the others", op)
                self._to_str(multi=self.elem_multi, token=self.elem_token)
                self.str_nl = self.elem_nl
                return
            raise _NotInterpreted(f"subscript [{idx!r}] of a {self.kind} on the token chain ({unparse(op.v.node, 60)})")
        if k == "slice":
            lo, hi, step = op.v.value
            if self.kind == "str" and lo in (None, 0) and not step and isinstance(hi, U.V) and hi.kind == "call" and hi.name in ("find", "index") and hi.args \
                    and U.const_of(hi.args[0]) == (True, ";"):
                if (hi.name == "index" or self.has_semi) and not self.multi:
                    self.comment = True
                else:
                    self.comment_why = "x[:x.find(';')] drops the last character of a line without a comment" if hi.name == "find" else "cut of a multi-line text"
                return
            if self.kind == "list" and lo in (None, 0) and hi is None and not step:
                return
            if self.kind == "list" and not self.cut:
                self.problem("alters-token:subscript", f"{unparse(op.v.node, 60)} drops some of the {'tokens' if self.elem_token else 'lines'}", op)
                return
            raise _NotInterpreted(f"slice of a {self.kind} on the token chain ({unparse(op.v.node, 60)})")
        if k == "attr":
            raise _NotInterpreted(f"attribute .{name} on the token chain ({unparse(op.v.node, 60)})")
        if k != "call":
            raise _NotInterpreted(f"{k} on the token chain")
        self._call(op, name)

    def _call(self, op: U.Op, name: str):
        method = op.v.recv is not None
        # ---- files
        if not method and name == "open":
            self.kind, self.via_file = "handle", True
            return
        if not method and name == "Path":
            self.kind = "path"
            return
        if not method and name in ("io.StringIO", "StringIO") and self.kind == "str":
            self.kind = "handle"
            return
        if method and name == "copy" and self.kind == "list":
            return
        if method and name == "open" and self.kind in ("path", "str"):
            self.kind, self.via_file = "handle", True
            return
        if method and name in ("read", "read_text") and self.kind in ("handle", "path", "str"):
            self.via_file = self.via_file or name == "read_text"
            self._to_str(multi=True)
            self.nl, self.ws, self.str_nl = True, set(WS4), False
            return
        if method and name == "readlines" and self.kind == "handle":
            self.kind, self.elem_multi, self.elem_nl, self.elem_token, self.cut = "list", False, True, False, False
            return
        if not method and name in U.PASS_CALLS:
            return
        if not method and name in ("filter", "itertools.filterfalse"):
            return
        if not method and name == "enumerate":
            raise _NotInterpreted("enumerate() whose pairs are used as tokens")
        if not method and name in ("sorted", "reversed", "set", "frozenset"):
            self.problem(f"alters-token:{name}", f"{name}() changes the order / multiplicity of the tokens", op)
            return
        # ---- regular expressions
        if not method and name in ("re.sub", "re.subn") and self.kind == "str":
            pat, repl = self._consts(op, 2)
            flags = _flag_names(op.arg(4, "flags") if "__compiled__" not in op.v.kw else op.v.kw.get("flags"))
            if flags is None:
                raise _NotInterpreted(f"flags of {unparse(op.v.node, 60)}")
            if name == "re.subn":
                raise _NotInterpreted("re.subn on the token chain")
            self._resub(op, pat, repl, flags)
            return
        if not method and name in ("re.findall", "re.finditer") and self.kind == "str":
            (pat,) = self._consts(op, 1)
            if self.token:
                raise _NotInterpreted("regex scan of a single token")
            self.scan = (pat, set(self.ws), op)
            self.tokenised = "scan"
            self.kind = "list" if name == "re.findall" else "matches"
            self.elem_multi, self.elem_nl, self.elem_token, self.cut = False, False, True, False
            self.ws = set()
            return
        if method and name == "group" and self.kind == "match":
            if op.v.args and U.const_of(op.v.args[0]) != (True, 0):
                raise _NotInterpreted("match.group(n) with n != 0 as a token")
            self._to_str(multi=False, token=True)
            return
        if not method:
            raise _NotInterpreted(f"call of {name}() on the token chain ({unparse(op.v.node, 60)})")
        # ---- string / list methods
        if name == "join":
            ok, sep = U.const_of(op.v.recv)
            if not ok or not isinstance(sep, str):
                raise _NotInterpreted(f"separator of {unparse(op.v.node, 60)} is not a constant")
            if self.kind != "str":
                raise _NotInterpreted(f"join of {self.kind}")
            # the state is that of one joined element (the data flowed through elem(<argument>))
            if sep == "" and not self.str_nl:
                self.problem("deletes-separator:join", f"{unparse(op.v.node, 60)} glues the pieces together without a separator: the last token of one piece and "
                                                       f"the first of the next merge", op)
            elif sep.strip() != "":
                self.problem("alters-token:join", f"{unparse(op.v.node, 60)} inserts {sep!r} between the pieces", op)
            self.nl = ("\n" in sep or self.str_nl) and not self.token
            if self.token:
                self.tokenised = None
                self.ws = set()
            self.ws |= {c for c in sep if c in WS4}
            self._to_str(multi=True)
            self.str_nl = False
            return
        if self.kind != "str":
            raise _NotInterpreted(f"{name}() on a {self.kind} on the token chain ({unparse(op.v.node, 60)})")
        if name == "lower":
            self.lowered = True
            return
        if name in ("upper", "swapcase", "title", "capitalize", "casefold"):
            self.lowered = False
            self.problem(f"alters-token:{name}", f"{name}() changes the case of the tokens after / instead of lower()", op)
            return
        if name in ("strip", "lstrip", "rstrip"):
            if op.v.args:
                (chars,) = self._consts(op, 1)
                if chars is not None and (not isinstance(chars, str) or set(chars) - WHITESPACE):
                    self.problem(f"alters-token:{name}", f"{unparse(op.v.node, 60)} removes non-blank characters from the text", op)
            if name != "lstrip":
                self.str_nl = False
            return
        if name == "expandtabs":
            self.ws.discard("\t")
            self.ws.add(" ")
            return
        if name == "splitlines":
            keep = op.arg(0, "keepends")
            keep = keep is not None and U.const_of(keep) != (True, False)
            self.kind, self.elem_multi, self.elem_nl, self.elem_token, self.cut = "list", self.multi and not self.nl, keep, False, False
            if not keep:
                self.ws -= {"\n", "\r"}
            return
        if name == "split":
            sep = op.arg(0, "sep")
            ok, sv = U.const_of(sep) if sep is not None else (True, None)
            if not ok:
                raise _NotInterpreted(f"separator of {unparse(op.v.node, 60)} is not a constant")
            self.cut = False
            if sv is None:
                self.tokenised = "split"
                self.kind, self.elem_multi, self.elem_nl, self.elem_token = "list", False, False, True
                self.ws = set()
            elif sv == "\n" and not self.token:
                self.kind, self.elem_multi, self.elem_nl, self.elem_token = "list", self.multi and not self.nl, False, False
                self.ws.discard("\n")
            elif sv == ";":
                self.kind, self.elem_multi, self.elem_nl, self.elem_token, self.cut = "list", self.multi, False, False, True
            elif isinstance(sv, str) and sv and not set(sv) - WHITESPACE:
                self.tokenised = "split"
                self.bad_split = op
                self.kind, self.elem_multi, self.elem_nl, self.elem_token = "list", False, False, True
            else:
                raise _NotInterpreted(f"{unparse(op.v.node, 60)} on the token chain")
            return
        if name == "partition":
            (sv,) = self._consts(op, 1)
            if sv != ";":
                raise _NotInterpreted(f"{unparse(op.v.node, 60)} on the token chain")
            self.kind, self.elem_multi, self.elem_nl, self.elem_token, self.cut = "list", self.multi, False, False, True
            return
        if name == "translate":
            table = op.arg(0)
            if table is not None and table.kind == "call" and table.recv is None and table.name == "str.maketrans" and len(table.args) == 1:
                table = table.args[0]
            if table is None or table.kind != "dict" or not all(k.kind == "const" and v.kind == "const" for k, v in table.parts):
                raise _NotInterpreted(f"translation table of {unparse(op.v.node, 60)}")
            for k, v in table.parts:
                a, b = (chr(k.value) if isinstance(k.value, int) else k.value), ("" if v.value is None else v.value)
                self._replace(op, a, b)
            return
        if name == "replace":
            a, b = self._consts(op, 2)
            self._replace(op, a, b)
            return
        raise _NotInterpreted(f"{name}() on the token chain ({unparse(op.v.node, 60)})")

    def _replace(self, op: U.Op, a, b):
        self.replaces.append((op, a, b))
        if not isinstance(a, str) or not isinstance(b, str):
            raise _NotInterpreted(f"{unparse(op.v.node, 60)}")
        if a == b or a == "":
            return
        if not set(a) - WHITESPACE:
            if b == "":
                self.problem(f"deletes-separator:{a!r}", f"{unparse(op.v.node, 60)} deletes the separator {a!r}: the tokens on both sides merge "
                                                         f"('(a<TAB>b)' reads as ['ab'])", op)
            elif set(b) - WHITESPACE:
                self.problem("alters-token:replace", f"{unparse(op.v.node, 60)} turns the separator {a!r} into token text", op)
            if len(a) == 1:
                self.ws.discard(a)
            if "\n" in a and "\n" not in b:
                self.nl = False
            self.ws |= {c for c in b if c in WS4}
            return
        if a in ("(", ")"):
            if b.strip() == a and b[:1].isspace() and b[-1:].isspace():
                if not self.token:
                    self.pad[a] = True
            else:
                self.problem(f"padding:{a}", f"{a!r} is replaced by {b!r}: a parenthesis is not separated from its neighbours on both sides", op)
            self.ws |= {c for c in b if c in WS4}
            return
        self.problem("alters-token:replace", f"{unparse(op.v.node, 60)} rewrites token text", op)
        return

    def _resub(self, op: U.Op, pat, repl, flags: Set[str]):
        pr = _parse_re(pat)
        items = pr[0] if pr else []
        while items and items[0][0] in (sre_c.MAX_REPEAT, sre_c.MIN_REPEAT) and _ws_only_item(*items[0]) and len(items) > 1:
            items = items[1:]
        if items and items[0] == (sre_c.LITERAL, ord(";")):
            ok, why = _comment_regex(pat, flags, self.multi)
            if ok and isinstance(repl, str) and not set(repl) - WHITESPACE and not self.token and (not self.multi or self.nl):
                self.comment = True
                self.ws |= {c for c in repl if c in WS4}
            else:
                self.comment_why = why or ("the comment is replaced by text" if not ok or (isinstance(repl, str) and set(repl) - WHITESPACE) else
                                           "the comment regex runs on text whose line ends were already removed")
            return
        pads = _pad_regex(pat, repl)
        if pads is not None:
            for ch in sorted(_paren_chars(pat)):
                if ch in pads:
                    if not self.token:
                        self.pad[ch] = True
                else:
                    self.problem(f"padding:{ch}", f"{unparse(op.v.node, 60)}: a parenthesis is not separated from its neighbours on both sides", op)
            self.ws |= {c for c in repl if c in WS4}
            return
        if _ws_regex(pat) and isinstance(repl, str):
            if repl == "":
                self.problem("deletes-separator:regex", f"{unparse(op.v.node, 60)} deletes separators: the tokens on both sides merge", op)
            elif set(repl) - WHITESPACE:
                self.problem("alters-token:re.sub", f"{unparse(op.v.node, 60)} turns separators into token text", op)
            else:
                if any(o in (sre_c.MAX_REPEAT, sre_c.MIN_REPEAT, sre_c.IN) for o, _a in pr[0]) and any(
                        (o == sre_c.CATEGORY) or (o == sre_c.IN and any(x == sre_c.CATEGORY for x, _y in a)) or
                        (o in (sre_c.MAX_REPEAT, sre_c.MIN_REPEAT) and any(x == sre_c.CATEGORY or (x == sre_c.IN and any(z == sre_c.CATEGORY for z, _w in y)) for x, y in a[2]))
                        for o, a in pr[0]):
                    self.ws = set()
                    if self.multi:
                        self.nl = "\n" in repl
                self.ws |= {c for c in repl if c in WS4}
            return
        self.problem("alters-token:re.sub", f"{unparse(op.v.node, 60)} rewrites the text in a way that is not a comment cut, a parenthesis padding or a "
                                            f"whitespace normalisation", op)


def _semicolon_atom(p, e: ast.Compare) -> Optional[str]:
    """'semi' / '!semi' for tests whether a string contains a ';':  ';' in x,  ';' not in x,  x.find(';') != -1 / >= 0 / == -1 / < 0
    (also through a local name: pos = x.find(';'); if pos != -1)"""
    if len(e.ops) != 1:
        return None
    op, l, rr = e.ops[0], e.left, e.comparators[0]
    if isinstance(op, (ast.In, ast.NotIn)) and _const_str(p, l) == {";"}:
        return "semi" if isinstance(op, ast.In) else "!semi"
    if isinstance(l, ast.Name):
        try:
            defs = p.rd.defs_reaching(p.node_of(l), l.id)
        except KeyError:
            return None
        vals = [p.g.stmt[d].value for d in defs if d != p.g.entry and isinstance(p.g.stmt[d], (ast.Assign, ast.AnnAssign)) and p.g.stmt[d].value is not None]
        if len(vals) != 1 or len(defs) != 1:
            return None
        l = vals[0]
    if isinstance(l, ast.Call) and isinstance(l.func, ast.Attribute) and l.func.attr == "find" and len(l.args) == 1 and _const_str(p, l.args[0]) == {";"}:
        c = rr.value if isinstance(rr, ast.Constant) else (-rr.operand.value if isinstance(rr, ast.UnaryOp) and isinstance(rr.op, ast.USub) and isinstance(rr.operand, ast.Constant) else None)
        if c == -1:
            return {ast.NotEq: "semi", ast.Gt: "semi", ast.Eq: "!semi"}.get(type(op))
        if c == 0:
            return {ast.GtE: "semi", ast.Lt: "!semi"}.get(type(op))
    return None


def _paren_chars(pat) -> Set[str]:
    pr = _parse_re(pat)
    out: Set[str] = set()

    def walk(items):
        for o, a in items:
            if o == sre_c.LITERAL and chr(a) in "()":
                out.add(chr(a))
            elif o == sre_c.IN:
                walk(a)
            elif o == sre_c.SUBPATTERN:
                walk(a[3])

    if pr:
        walk(pr[0])
    return out


def _judge(chain: List[U.Op], has_semi: bool = False) -> _Chain:
    st = _Chain()
    st.has_semi = has_semi
    for op in reversed(chain):
        st.step(op)
    if st.kind == "list" and st.cut:
        st.cut = False
    return st


# --------------------------------------------------------------------------- line filters
class _LineWorld:
    """guards of a function under 'the line is neither a comment line nor blank'"""
    __slots__ = ("G", "g", "val", "seen", "valfn", "flow", "p")


def _line_world(repo: Repo, f: FuncInfo) -> _LineWorld:
    p = L.prov(repo, f)
    pm = L.parents_of(f)
    flow = U.Flow(repo, f)

    def derived(e: ast.AST, loose: bool) -> bool:
        """the expression is a line of the input or a form of it that is blank exactly when (loose) / starts with the same non-blank
        character as (strict) the code part of the line"""
        try:
            chs = U.chains(flow.value(e), lambda a: None, limit=40)
        except Exception:
            return False
        for ch in chs:
            cut = False
            for op in reversed(ch):
                if op.kind == "call" and op.v.recv is not None and op.name in ("strip", "lstrip", "rstrip", "lower", "expandtabs") and \
                        (not op.v.args or (op.name != "lower" and all(a.kind == "const" and isinstance(a.value, str) and not set(a.value) - WHITESPACE for a in op.v.args))):
                    continue
                if op.kind in ("elem", "collect", "attr-store") or (op.kind == "item" and op.v.value is None and not cut):
                    continue
                if op.kind == "call" and op.v.recv is None and op.name in U.PASS_CALLS | {"filter", "itertools.filterfalse"}:
                    continue
                if op.kind == "root" and (op.name.startswith(("self.", "param:")) or op.name == "self"):
                    continue
                if loose and op.kind == "call" and op.name in ("replace", "re.sub", "lower", "strip", "rstrip", "lstrip"):
                    continue
                if loose and op.kind == "call" and op.v.recv is not None and ((op.name in ("partition", "split") and op.v.args and U.const_of(op.v.args[0]) == (True, ";"))
                                                                          or (op.name == "split" and not op.v.args and not op.v.kw)):
                    cut = op.name == "partition" or bool(op.v.args)
                    continue
                if loose and op.kind == "item" and cut and op.v.value == 0:
                    cut = False
                    continue
                return False
        return bool(chs)

    def line_like(e: ast.AST) -> bool:
        return derived(e, True)

    def stripped_left(e: ast.AST) -> bool:
        return derived(e, False)

    def first_char_is_semicolon(e: ast.AST) -> Optional[str]:
        # X.startswith(';')
        if isinstance(e, ast.Call) and isinstance(e.func, ast.Attribute) and e.func.attr == "startswith" and len(e.args) == 1 and _const_str(p, e.args[0]) == {";"} \
                and stripped_left(e.func.value):
            return "commentline"
        # X[0] == ';' / X[:1] == ';'
        if isinstance(e, ast.Compare) and len(e.ops) == 1 and isinstance(e.ops[0], (ast.Eq, ast.NotEq)) and _const_str(p, e.comparators[0]) == {";"} \
                and isinstance(e.left, ast.Subscript) and stripped_left(e.left.value):
            sl = e.left.slice
            if (isinstance(sl, ast.Constant) and sl.value == 0) or (isinstance(sl, ast.Slice) and sl.lower is None and isinstance(sl.upper, ast.Constant) and sl.upper.value == 1):
                return "commentline" if isinstance(e.ops[0], ast.Eq) else "!commentline"
        # re.match(r'\s*;', X) / <compiled>.match(X)   [is (not) None]
        if isinstance(e, ast.Compare) and len(e.ops) == 1 and isinstance(e.ops[0], (ast.Is, ast.IsNot)) and isinstance(e.comparators[0], ast.Constant) \
                and e.comparators[0].value is None and isinstance(e.left, ast.Call):
            inner = first_char_is_semicolon(e.left)
            if inner == "commentline":
                return "commentline" if isinstance(e.ops[0], ast.IsNot) else "!commentline"
            return None
        if isinstance(e, ast.Call):
            try:
                v = flow.value(e)
            except Exception:
                v = None
            if v is not None and v.kind == "call" and v.recv is None and v.name == "re.match" and len(v.args) >= 2:
                ok, pat = U.const_of(v.args[0])
                pr = _parse_re(pat) if ok else None
                if pr:
                    items = pr[0]
                    while items and _ws_only_item(*items[0]):
                        items = items[1:]
                    if items and items[0] == (sre_c.LITERAL, ord(";")):
                        return "commentline"
        return None

    def blank(e: ast.AST) -> Optional[str]:
        if isinstance(e, ast.Call) and isinstance(e.func, ast.Attribute) and e.func.attr in ("strip", "lstrip", "rstrip") and not e.args and _bool_ctx(pm, e) \
                and line_like(e.func.value):
            return "!blank"
        if isinstance(e, ast.Call) and isinstance(e.func, ast.Attribute) and e.func.attr == "isspace" and line_like(e.func.value):
            return "blank"
        if isinstance(e, ast.Compare) and len(e.ops) == 1 and isinstance(e.ops[0], (ast.Eq, ast.NotEq)):
            c = _const_str(p, e.comparators[0])
            if c and c <= {"", "\n", "\r\n"} and line_like(e.left):
                return "blank" if isinstance(e.ops[0], ast.Eq) else "!blank"
        if isinstance(e, ast.Compare) and len(e.ops) == 1 and isinstance(e.left, ast.Call) and callee_name(e.left) == "len" and e.left.args and line_like(e.left.args[0]) \
                and isinstance(e.comparators[0], ast.Constant) and e.comparators[0].value == 0:
            if isinstance(e.ops[0], ast.Eq):
                return "blank"
            if isinstance(e.ops[0], (ast.NotEq, ast.Gt)):
                return "!blank"
        if isinstance(e, ast.Name) and isinstance(e.ctx, ast.Load) and _bool_ctx(pm, e) and line_like(e):
            return "!blank"
        return None

    memo: Dict[int, Optional[str]] = {}

    def matcher(e):
        k = id(e)
        if k not in memo:
            memo[k] = None
            if isinstance(e, (ast.Call, ast.Compare, ast.Name)):
                memo[k] = first_char_is_semicolon(e) or blank(e)
        return memo[k]

    W = _LineWorld()
    W.G = L.Guards(f, _with_operator_forms(repo, f, matcher))
    W.g = W.G.g
    W.val = {"commentline": False, "blank": False}
    W.seen = W.G.reach(W.val)
    W.valfn, _ = W.G.under(W.val, W.seen)
    W.flow, W.p = flow, p
    return W


def _predicate_is(repo: Repo, fv: Optional[U.V], want: bool, depth: int = 0) -> bool:
    """a filter predicate given as a function value has the truth value `want` for every line that is neither a comment line nor
    blank: a function of the repository all of whose returns evaluate to `want` under that valuation, str.strip & co (true for
    non-blank text), str.isspace (false), methodcaller of those"""
    if fv is None or depth > 3:
        return False
    if fv.kind == "alt" and fv.parts:
        return all(_predicate_is(repo, x, want, depth + 1) for x in fv.parts)
    meth = None
    if fv.kind == "leaf" and fv.name.startswith("global:str."):
        meth = fv.name[len("global:str."):]
    elif fv.kind == "call" and fv.recv is None and fv.name == "operator.methodcaller" and len(fv.args) == 1 and not fv.kw and fv.args[0].kind == "const":
        meth = fv.args[0].value
    if meth is not None:
        return (want and meth in ("strip", "lstrip", "rstrip")) or (not want and meth == "isspace")
    fi = fv.value if fv.kind == "leaf" and isinstance(fv.value, FuncInfo) else None
    if fi is not None and fi.is_method:
        return False
    if fi is None and fv.kind == "selfattr" and fv.ctx is not None and fv.ctx.cls:
        fi = repo.find_method(fv.ctx.cls, fv.name)         # a bound method of the tokenizer used as the predicate
    if fi is None:
        return False
    flat = U.flatten(repo, fi)
    params = [x for x in flat.params if x != flat.self_name]
    if len(params) != 1:
        return False
    W = _line_world(repo, flat)
    rets = [n for n in W.g.nodes() if W.g.kind[n] == "return" and n in W.seen]
    if not rets or any(m in W.seen and W.g.kind[m] != "return" for m, _l in W.g.pred[W.g.exit]):
        return False
    for n in rets:
        st = W.g.stmt[n]
        if not isinstance(st, ast.Return) or st.value is None or W.G.value(W.val, st.value, W.seen) is not want:
            return False
    return True


def _line_filters(repo: Repo, f: FuncInfo, r: RuleResult, anchor: bool = True):
    """a line may be left out of the token stream only because it is a comment line or blank: under (not comment line, not blank)
    every filter on the way passes.  Filters are the conditions of comprehensions / generator expressions over the lines and the
    tests that let an iteration of a statement loop finish without reaching the statement that adds the tokens."""
    W = _line_world(repo, f)
    G, g, val, seen, valfn, flow = W.G, W.g, W.val, W.seen, W.valfn, W.flow
    bad: List[Tuple[ast.AST, str]] = []
    # comprehension filters anywhere in the function (every comprehension of tokenize is part of the token flow)
    for n in ast.walk(f.node):
        if isinstance(n, (ast.ListComp, ast.SetComp, ast.GeneratorExp)):
            for gen in n.generators:
                for cond in gen.ifs:
                    if G.value(val, cond, seen) is not True:
                        bad.append((cond, f"the filter `{unparse(cond, 60)}` of a comprehension"))
    for c in L.calls_in(f.node):
        try:
            cv = flow.value(c)
        except Exception:
            cv = None
        if cv is not None and cv.kind == "call" and cv.recv is None and cv.name in ("filter", "itertools.filterfalse") and len(c.args) == 2:
            fn_ = c.args[0]
            want = cv.name == "filter"
            if isinstance(fn_, ast.Constant) and fn_.value is None and want:
                continue
            if isinstance(fn_, ast.Lambda) and G.value(val, fn_.body, seen) is want:
                continue
            if _predicate_is(repo, cv.args[0], want):
                continue
            bad.append((c, f"the filter `{unparse(c, 60)}`"))
    # an explicit iterator that a loop / comprehension consumes may not be advanced anywhere else (next(lines) skips a line)
    looped = set()
    for n in ast.walk(f.node):
        if isinstance(n, (ast.For, ast.comprehension)) and isinstance(n.iter, ast.Name):
            looped.add(n.iter.id)
    for c in L.calls_in(f.node):
        it = None
        if isinstance(c.func, ast.Name) and c.func.id == "next" and c.args and isinstance(c.args[0], ast.Name):
            it = c.args[0].id
        elif isinstance(c.func, ast.Attribute) and c.func.attr == "__next__" and isinstance(c.func.value, ast.Name):
            it = c.func.value.id
        if it is not None and it in looped:
            bad.append((c, f"`{unparse(c, 60)}`, which advances the iterator of a loop a second time,"))
    # statement loops: the additions to a container must be certain in every iteration
    add_nodes: Dict[int, str] = {}
    for c in L.calls_in(f.node):
        if isinstance(c.func, ast.Attribute) and c.func.attr in U.ADD_ONE + U.ADD_MANY + ("insert",) and isinstance(c.func.value, ast.Name):
            n = g.node_containing(c)
            if n is not None:
                add_nodes[n] = c.func.value.id
    for n in g.nodes():
        st = g.stmt[n]
        if isinstance(st, ast.AugAssign) and isinstance(st.target, ast.Name):
            add_nodes[n] = st.target.id
        elif isinstance(st, ast.Expr) and isinstance(st.value, (ast.Yield, ast.YieldFrom)):
            add_nodes[n] = "<yield>"
    for head in [n for n in g.nodes() if g.kind[n] == "loop" and isinstance(g.stmt[n], ast.For)]:
        groups: Dict[str, Set[int]] = {}
        for n, name in add_nodes.items():
            if _in_loop(g, n, head):
                groups.setdefault(name, set()).add(n)
        if not groups:
            continue
        r.site(L.site(f, g.stmt[head].iter, "line filter"))
        for name, mine in sorted(groups.items()):
            inner = set()
            for t in mine:
                cur = g.loop_of.get(t)
                while cur is not None and cur != head:
                    inner.add(cur)       # an inner loop that adds: whether it iterates at all is not a filter on the line
                    cur = g.loop_of.get(cur)
            # a definition `x = []` that reaches the addition `container.extend(x)` adds nothing: reaching it is a skip as well
            sinks: Set[int] = set()
            for t in mine:
                st = g.stmt[t]
                arg = None
                if isinstance(st, ast.AugAssign):
                    arg = st.value
                elif isinstance(st, ast.Expr) and isinstance(st.value, (ast.Yield, ast.YieldFrom)):
                    arg = st.value.value
                elif isinstance(st, ast.Expr) and isinstance(st.value, ast.Call) and st.value.args:
                    arg = st.value.args[-1]
                if isinstance(arg, ast.Name):
                    for d in L.rd_of(f).defs_reaching(t, arg.id):
                        ds = g.stmt[d] if d != g.entry else None
                        if isinstance(ds, (ast.Assign, ast.AnnAssign)) and ds.value is not None and _is_empty(ds.value) and _in_loop(g, d, head):
                            sinks.add(d)
            body_reach = _iteration_without(G, g, val, head, mine | inner, sinks)
            if body_reach is not None:
                tests = [g.stmt[n].test for n in sorted(body_reach) if g.kind[n] == "if" and _in_loop(g, n, head) and C.eval3(g.stmt[n].test, valfn) is None
                         and not getattr(g.stmt[n], "_inline_block", False)]
                what = f"the test `{unparse(tests[0], 60)}`" if tests else "a path through the loop body"
                bad.append((tests[0] if tests else g.stmt[head], what))
                break
    if not anchor:
        # a helper that is evaluated in place (generator / public function): per call it may hand back nothing only for a comment
        # line / blank line -- a generator must not finish without passing a yield (or a loop that yields), a function must not
        # return an empty value
        def unknown_tests(nodes):
            return [g.stmt[n].test for n in sorted(nodes) if g.kind[n] == "if" and C.eval3(g.stmt[n].test, valfn) is None and not getattr(g.stmt[n], "_inline_block", False)]

        yields = {n for n, name in add_nodes.items() if name == "<yield>"}
        if yields:
            targets = set(yields)
            for t in yields:
                cur = g.loop_of.get(t)
                while cur is not None:
                    targets.add(cur)
                    cur = g.loop_of.get(cur)
            res = G.reach(val, avoid=targets)
            r.site(f.qn + " [generator exit]")
            if g.exit in res:
                tests = unknown_tests(res)
                bad.append((tests[0] if tests else f.node, f"the test `{unparse(tests[0], 60)}`" if tests else "a path through the generator"))
        else:
            rets = [n for n in g.nodes() if g.kind[n] == "return" and isinstance(g.stmt[n], ast.Return)]
            empty = [n for n in rets if n in seen and (g.stmt[n].value is None or _is_empty(g.stmt[n].value))]
            if empty and len(empty) < len(rets):
                tests = unknown_tests(seen)
                bad.append((tests[0] if tests else g.stmt[empty[0]], f"the test `{unparse(tests[0], 60)}`" if tests else "an empty return"))
    return bad


def _is_empty(v: ast.AST) -> bool:
    if isinstance(v, (ast.List, ast.Set, ast.Tuple)):
        return not v.elts
    if isinstance(v, ast.Dict):
        return not v.keys
    if isinstance(v, ast.Constant):
        return v.value in ("", None)
    return isinstance(v, ast.Call) and isinstance(v.func, ast.Name) and v.func.id in ("list", "set", "dict", "tuple", "deque", "iter") and not v.args and not v.keywords


def _iteration_without(G: L.Guards, g: C.CFG, val: Dict[str, bool], head: int, targets, sinks=()) -> Optional[Set[int]]:
    """the nodes of a path on which, under the valuation, one iteration of the loop ends (back at the head or outside of the loop,
    other than by an exception) without executing any of the target nodes, or reaches one of the sink nodes; None when there is
    no such path"""
    res: Set[int] = set()
    for s, l in g.succ[head]:
        if l == "iter":
            res |= G.reach(val, avoid=targets, start=s)
    if head in res or any(n != g.raise_ and n != head and not _in_loop(g, n, head) for n in res) or any(n in res for n in sinks):
        return res
    return None


def _in_loop(g: C.CFG, n: int, head: int) -> bool:
    cur = g.loop_of.get(n)
    while cur is not None:
        if cur == head:
            return True
        cur = g.loop_of.get(cur)
    return False


_FLOWS: Dict[int, Tuple[object, U.Flow]] = {}


def _flow_const(p, e: ast.AST) -> Optional[Set[object]]:
    """the constant(s) the value-flow evaluator finds for an expression (None: not constant)"""
    if getattr(p, "f", None) is None or getattr(p, "repo", None) is None:
        return None
    if id(p) not in _FLOWS:
        _FLOWS[id(p)] = (p, U.Flow(p.repo, p.f))
    try:
        v = _FLOWS[id(p)][1].value(e)
    except Exception:
        return None
    parts = v.parts if v.kind == "alt" else [v]
    if not parts or not all(x.kind == "const" and isinstance(x.value, (str, int, type(None))) for x in parts):
        return None
    return {x.value for x in parts}


def _const_str(p, e: ast.AST) -> Optional[Set[object]]:
    """the constant values an expression can have (module constants are folded by the provenance engine); None when it is not constant"""
    try:
        tr = p.trace(e)
    except KeyError:
        return None
    out = set()
    if isinstance(e, (ast.Subscript, ast.Call, ast.Attribute, ast.BinOp, ast.JoinedStr)) and not all(len(x) == 1 and x[0].startswith("const:") for x in tr):
        # an element of a constant table (PARENS[1], Tokens.CLOSE, "{}".format(")") ..): evaluated by the value-flow evaluator
        return _flow_const(p, e)
    for x in tr:
        if len(x) == 1 and x[0].startswith("const:"):
            try:
                out.add(ast.literal_eval(x[0][6:]))
            except Exception:
                return None
        elif len(x) == 1 and x[0].startswith("global:"):
            continue
        elif len(x) == 1 and x[0].startswith("builtin:") and isinstance(e, ast.Name) and getattr(p, "f", None) is not None:
            uc = U.unpacked_constant(p.repo, p.f.mod.name, e.id)      # A, B = "(", ")" at module level
            if not isinstance(uc, ast.Constant):
                return None
            out.add(uc.value)
        else:
            return None
    return out or None


# --------------------------------------------------------------------------- C11.pipeline
def rule_pipeline(repo: Repo) -> RuleResult:
    r = RuleResult("C11.pipeline", "text -> tokens: no separator deleted, lower-cased, parentheses padded, whitespace split, ';' comments cut",
                   "invariant under layout, comments and case; distinct tokens never merge or split")
    repo.module(TK)
    init = L.fn(repo, INIT)
    tok = L.fn(repo, TOKENIZE)
    init_flow = U.Flow(repo, init)
    rets = [x for x in L.func_returns(tok) if x.value is not None]
    if not rets:
        raise AnalysisError("tokenize: no value is returned")

    # tests `';' in line` split the analysis into two worlds: lines with a comment (where it has to be cut) and lines without one
    ptok = L.prov(repo, tok)
    semi_memo: Dict[int, Optional[str]] = {}

    def semi(e):
        if id(e) not in semi_memo:
            semi_memo[id(e)] = _semicolon_atom(ptok, e) if isinstance(e, ast.Compare) else None
        return semi_memo[id(e)]

    G = L.Guards(tok, _with_operator_forms(repo, tok, semi))
    worlds = [None] if "semi" not in G.atoms_seen else [True, False]
    states: List[_Chain] = []
    all_chains: List[List[U.Op]] = []
    for world in worlds:
        tok_flow = U.Flow(repo, tok) if world is None else U.Flow(repo, tok, guards=G, valuation={"semi": world})
        cache: Dict[str, Optional[U.V]] = {}

        def resolve_attr(attr: str, cache=cache, tok_flow=tok_flow) -> Optional[U.V]:
            if attr not in cache:
                cache[attr] = None          # (cycle guard: a store that reads the attribute itself)
                st = init_flow.stores(attr) + tok_flow.stores(attr)
                cache[attr] = U.alt([v for v, _n in st]) if st else None
            return cache[attr]

        chains_w: List[List[U.Op]] = []
        for ret in rets:
            chains_w.extend(U.chains(U.elem(tok_flow.value(ret.value)), resolve_attr))
        all_chains.extend(chains_w)
        try:
            for ch in chains_w:
                st_ = _judge(ch, world is True)
                if world is False:
                    st_.comment = True      # nothing to cut on a line without ';'
                states.append(st_)
        except _NotInterpreted as ex:
            raise AnalysisError(f"tokenize: the computation of the tokens is not interpreted: {ex}")
    if not all_chains:
        r.site(tok.qn + " [chain]")
        r.fail(Finding("C11.pipeline", tok, "chain:source", "tokenize() returns a container into which nothing is ever put"))

    # (1) operations that delete a separator / alter tokens, parenthesis padding (reported where the operation is written)
    seen_sites: Set[int] = set()
    for st in states:
        for op, a, b in st.replaces:
            if id(op.v.node) not in seen_sites:
                seen_sites.add(id(op.v.node))
                r.site(L.site(op.home or tok, op.v.node, "replace"))
                if not any(o is op for st2 in states for _r, _t, o in st2.problems):
                    r.ok({"replace": [a, b]})
    reported: Set[Tuple[str, str]] = set()
    for st in states:
        for role, text, op in st.problems:
            home = op.home or tok
            if (home.qn, role) in reported:
                continue
            reported.add((home.qn, role))
            if id(op.v.node) not in seen_sites:
                seen_sites.add(id(op.v.node))
                r.site(L.site(home, op.v.node, op.name))
            r.fail(Finding("C11.pipeline", home, role, text, node=op.v.node))

    # (2) what every chain must contain
    r.site(tok.qn + " [chain]")
    missing: Dict[str, str] = {}
    scan_problems: List[str] = []
    scan_at: Optional[Tuple[str, U.Op]] = None
    sources = set()
    states = [st for st in states if not st.dead]
    for st in states:
        if st.root.startswith("param:") and st.root_home is not None and st.root_home.qn == init.qn:
            sources.add(st.root)
        elif st.root == "const" and st.tokenised is None:
            continue        # a constant put into the container is judged like a chain that was never tokenised only when nothing else is
        else:
            missing.setdefault("source", f"tokens derive from {st.root} instead of the constructor's input")
        if not st.lowered:
            missing.setdefault("lower", "lower() is not applied")
        if st.tokenised is None:
            missing.setdefault("split", "the text is never split into tokens")
        if st.tokenised == "split":
            for ch in "()":
                if not st.pad[ch]:
                    missing.setdefault(f"pad{ch}", f"{ch!r} is not padded with blanks before the split")
        if not st.comment:
            missing.setdefault("comment", st.comment_why or "';' comments are not removed before the text is split")
        if st.bad_split is not None:
            missing.setdefault("whitespace-split", f"{unparse(st.bad_split.v.node, 60)} splits on one separator only, not on arbitrary whitespace")
        if st.scan is not None:
            pat, ws, op = st.scan
            probs = _scan_regex_problems(pat)
            probs = [p_ for p_ in probs if not any(p_.endswith("a " + nm) for ch, nm in WS4.items() if ch not in ws)]
            for p_ in probs:
                if p_ not in scan_problems:
                    scan_problems.append(p_)
            scan_at = scan_at or (pat, op)
    if not states:
        pass
    elif scan_at is not None:
        probs = list(scan_problems)
        if "lower" in missing:
            probs.append("lower() is not applied")
        if "comment" in missing:
            probs.append("';' comments are not removed")
        for k in ("source", "split", "whitespace-split", "pad(", "pad)"):
            if k in missing:
                probs.append(f"{k}: {missing[k]}")
        if probs:
            r.fail(Finding("C11.pipeline", tok, "scan-regex:" + "/".join(sorted({p_.split(":")[0] for p_ in probs})),
                           f"tokens are the matches of {scan_at[0]!r}: {probs}", node=scan_at[1].v.node))
        else:
            r.ok({"chain": "regex scan", "pattern": scan_at[0]})
    else:
        order = ["source", "lower", "split", "pad(", "pad)", "comment", "whitespace-split"]
        miss = [k for k in order if k in missing]
        if miss:
            r.fail(Finding("C11.pipeline", tok, f"chain:{'/'.join(miss)}", f"tokenisation chain lacks {miss}: " + "; ".join(missing[k] for k in miss)))
        else:
            r.ok({"chain": ["comment", "lower", "pad(", "pad)", "split"], "split": "str.split() on arbitrary whitespace", "chains": len(states)})

    # (2b) what tokenize() returns is a flat container of tokens: every element is ONE token, not a list of tokens (a line's tokens added
    # with append instead of extend) and not a piece of text that still has to be split
    nested = [st for st in states if st.tokenised is not None and not st.problems and st.kind in ("list", "matches")]
    if states and all(st.tokenised is not None for st in states):
        r.site(tok.qn + " [elements]")
        if nested:
            r.fail(Finding("C11.pipeline", tok, "chain:element-not-a-token", "an element of the container that tokenize() returns is a whole list of tokens (the tokens of a "
                           "line are added as ONE element): the reader takes it for an atom, the parenthesis structure is lost and unbalanced text is accepted"))
        else:
            r.ok({"elements": "single tokens"})

    # (3) a line is skipped only because it is a comment line / blank (in every function that takes part in the flow)
    parts: Dict[int, Tuple[FuncInfo, FuncInfo]] = {id(tok.node): (tok, tok)}
    for ch in all_chains:
        for op in ch:
            ctx = op.v.ctx if op.v is not None else None
            if ctx is not None and ctx.f is not None and id(ctx.f.node) not in parts:
                parts[id(ctx.f.node)] = (ctx.f, ctx.home or tok)
    bad = []
    for fpart, home in parts.values():
        bad += [(home, node, what) for node, what in _line_filters(repo, fpart, r, anchor=fpart is tok)]
    for home, node, what in bad[:1]:
        r.fail(Finding("C11.pipeline", home, "line-filter", f"{what} can keep a line that is neither a comment line nor blank out of the token stream", node=node))
    if not bad:
        r.ok({"line_filters": "only comment-line / blank-line tests"})

    # (3b) ... and skipping a line never ends the walk: no turn of a loop over the stored lines can leave the loop (whatever the line is:
    # comment line, blank, code), otherwise everything after the first such line is missing from the token stream
    early = _lines_walk_left_early(repo, tok, init, r)
    for lp in early[:1]:
        r.fail(Finding("C11.pipeline", tok, "line-walk-left-early", f"one turn of the loop over {unparse(lp.iter, 40)} can end the walk over the lines (break / return): "
                       f"the lines after it never reach the token stream", node=lp))

    # (4) both input modes reach the tokens
    r.site(init.qn + " [input modes]")
    crossed = [st for st in states if st.root_home is not None and st.root_home.qn == init.qn and
               ((st.root == "param:file_path" and not st.via_file) or (st.root == "param:pddl_str" and st.via_file))]
    if crossed:
        r.fail(Finding("C11.pipeline", init, "input-modes", "the two inputs are mixed up: " + "; ".join(sorted(
            {"file_path is used as the text itself" if st.root == "param:file_path" else "pddl_str is opened as a file" for st in crossed}))))
    elif {"param:file_path", "param:pddl_str"} <= sources:
        r.ok({"modes": sorted(sources)})
    else:
        r.fail(Finding("C11.pipeline", init, "input-modes", f"the tokens are fed from {sorted(sources)} only"))
    # (4b) each input mode is accepted: with only file_path given, and with only pddl_str given, the constructor does not refuse the
    # input and stores the lines that come from THAT argument
    for mode, why in _input_modes_refused(repo, init, r):
        r.fail(Finding("C11.pipeline", init, f"input-mode-refused:{mode}", why))
    r.require_sites(3)
    return r


INPUT_MODES = {
    # mode -> (the argument that is given, the argument that is None); reason: the two ways the property feeds text to the reader
    "file": ("file_path", "pddl_str"),
    "string": ("pddl_str", "file_path"),
}


def _input_modes_refused(repo: Repo, init: FuncInfo, r: RuleResult) -> List[Tuple[str, str]]:
    """guard valuation of the constructor over (file_path is None, pddl_str is None)"""
    p = L.prov(repo, init)
    pm = L.parents_of(init)
    names = {"file_path": "nofile", "pddl_str": "nostr"}
    if not set(names) <= set(init.params):
        return []

    def which(e: ast.AST) -> Optional[str]:
        if isinstance(e, ast.Name):
            for prm, atom in names.items():
                if L.is_param(p, e, prm):
                    return atom
        return None

    def matcher(e):
        if isinstance(e, ast.Compare) and len(e.ops) == 1 and isinstance(e.ops[0], (ast.Is, ast.IsNot, ast.Eq, ast.NotEq)) and isinstance(e.comparators[0], ast.Constant) \
                and e.comparators[0].value is None:
            a = which(e.left)
            if a:
                return a if isinstance(e.ops[0], (ast.Is, ast.Eq)) else "!" + a
        if isinstance(e, ast.Name) and isinstance(e.ctx, ast.Load) and _bool_ctx(pm, e):
            a = which(e)
            if a == "nofile":        # a path object is true whenever it is given (an empty pddl_str is false: not decided here)
                return "!" + a
        return None

    G = L.Guards(init, matcher)
    g = G.g
    out: List[Tuple[str, str]] = []
    if not {"nofile", "nostr"} & G.atoms_seen:
        return out
    stores = [n for n in g.nodes() if isinstance(g.stmt[n], (ast.Assign, ast.AnnAssign)) and
              any(isinstance(t, ast.Attribute) and isinstance(t.value, ast.Name) and t.value.id == init.self_name
                  for t in (g.stmt[n].targets if isinstance(g.stmt[n], ast.Assign) else [g.stmt[n].target]))]
    for mode, (given, absent) in INPUT_MODES.items():
        val = {names[given]: False, names[absent]: True}
        seen = G.reach(val)
        r.site(f"{init.qn} [{mode} input accepted]")
        raised = [n for n in L.explicit_raises(g) if n in seen]
        normal = any(m in seen and m != g.raise_ and g.kind[m] != "raise" for m, _l in g.pred[g.exit]) or any(g.kind[n] == "return" and n in seen for n in g.nodes())
        if raised and not normal:
            out.append((mode, f"PDDLTokenizer({given}=<given>) with {absent}=None is refused ({unparse(g.stmt[raised[0]], 60)}): well-formed text cannot be read from a {mode}"))
            continue
        # (a raise next to a normal way out is one that the two atoms do not decide, e.g. a check of the file's existence: not a refusal of the mode)
        live = [n for n in stores if n in seen]
        if stores and not live:
            out.append((mode, f"with only {given} given the constructor stores no lines"))
            continue
        under = G.under(val, seen)
        roots = set()
        for n in live:
            st = g.stmt[n]
            try:
                roots |= {x[0] for x in p.trace(st.value, under=under)}
            except (KeyError, RecursionError):
                roots = None
                break
        if roots is not None and f"param:{absent}" in roots and f"param:{given}" not in roots:
            out.append((mode, f"with only {given} given the stored lines are computed from {absent} (which is None)"))
        else:
            r.ok({"mode": mode, "stored_from": sorted(x for x in (roots or ()) if x.startswith("param:"))})
    return out


def _lines_walk_left_early(repo: Repo, tok: FuncInfo, init: FuncInfo, r: RuleResult) -> List[ast.For]:
    """statement loops of tokenize() whose iterable is the stored collection of lines as a whole (possibly wrapped: iter / enumerate / list /
    filter ...; not an element of it, so not a loop over the characters or tokens of one line) that one turn can leave"""
    p = L.prov(repo, tok)
    stored = {t.attr for n in ast.walk(init.node) if isinstance(n, (ast.Assign, ast.AnnAssign)) for t in (n.targets if isinstance(n, ast.Assign) else [n.target])
              if isinstance(t, ast.Attribute) and isinstance(t.value, ast.Name) and t.value.id == init.self_name}
    W = _line_world(repo, tok)
    out = []
    for lp in [n for n in ast.walk(tok.node) if isinstance(n, ast.For)]:
        try:
            tr = p.trace(lp.iter)
        except (KeyError, RecursionError):
            continue
        if not tr or not all(len(x) >= 2 and x[0] == "self" and x[1].startswith("attr:") and x[1][5:] in stored and
                             not any(s_ in ("elem", "item") or s_.startswith(("item:", "unpack:", "slice:", "in:")) for s_ in x[2:]) for x in tr):
            continue
        if W.g.node_of(lp) is None:
            continue
        r.site(L.site(tok, lp.iter, "walk over the lines"))
        if L.leaves_loop_early(W.G, {}, lp):
            out.append(lp)
        else:
            r.ok({"walk": "every line is visited"})
    return out


# --------------------------------------------------------------------------- emptiness tests of the token container
def _bool_ctx(pm: dict, e: ast.AST) -> bool:
    """the expression is evaluated for its truth value"""
    par = pm.get(e)
    if isinstance(par, (ast.If, ast.While, ast.IfExp, ast.Assert)):
        return par.test is e
    if isinstance(par, ast.UnaryOp) and isinstance(par.op, ast.Not):
        return True
    if isinstance(par, ast.BoolOp):
        return _bool_ctx(pm, par)
    if isinstance(par, ast.comprehension):
        return any(c is e for c in par.ifs)
    if isinstance(par, ast.Call) and isinstance(par.func, ast.Name) and par.func.id in ("bool", "not_", "truth"):
        return True
    if isinstance(par, ast.Call) and isinstance(par.func, ast.Attribute) and par.func.attr in ("not_", "truth") and isinstance(par.func.value, ast.Name) and \
            par.func.value.id == "operator":
        return True
    return False


def _empty_atom(e: ast.AST, is_tokens, pm: dict) -> Optional[str]:
    """'empty' / '!empty' when the expression (in a boolean context) tests the token container for emptiness"""
    def is_len(x):
        return isinstance(x, ast.Call) and callee_name(x) == "len" and isinstance(x.func, ast.Name) and len(x.args) == 1 and is_tokens(x.args[0])

    if isinstance(e, ast.Compare) and len(e.ops) == 1:
        l, rr, op = e.left, e.comparators[0], e.ops[0]
        flip = {ast.Lt: ast.Gt, ast.Gt: ast.Lt, ast.LtE: ast.GtE, ast.GtE: ast.LtE}
        if is_len(rr) and isinstance(l, ast.Constant):
            l, rr = rr, l
            op = flip.get(type(op), type(op))()
        if is_len(l) and isinstance(rr, ast.Constant) and isinstance(rr.value, int) and not isinstance(rr.value, bool):
            c = rr.value
            if (isinstance(op, ast.Eq) and c == 0) or (isinstance(op, ast.Lt) and c == 1) or (isinstance(op, ast.LtE) and c == 0):
                return "empty"
            if (isinstance(op, ast.NotEq) and c == 0) or (isinstance(op, ast.Gt) and c == 0) or (isinstance(op, ast.GtE) and c == 1):
                return "!empty"
        return None
    if is_len(e) and _bool_ctx(pm, e):
        return "!empty"
    if isinstance(e, (ast.Name, ast.Attribute)) and isinstance(e.ctx, ast.Load) and _bool_ctx(pm, e) and is_tokens(e):
        return "!empty"
    return None


# --------------------------------------------------------------------------- C11.eof
def rule_eof(repo: Repo) -> RuleResult:
    r = RuleResult("C11.eof", "parse() rejects text that continues after the closing parenthesis of the top-level form",
                   "rejected with an error rather than truncated")
    f = _fn(repo, PARSE)
    p = L.prov(repo, f)
    g = C.cfg_of(f.node)
    pm = L.parents_of(f)
    r.site(f.qn)
    reads = [c for c in L.calls_in(f.node) if callee_name(c) == "read_from_tokens"]
    ok = False
    for c in reads:
        arg = c.args[0] if c.args else next((k.value for k in c.keywords if k.arg == "tokens"), None)
        if arg is None:
            continue
        def norm(paths):
            return {U.strip_record_trips(repo, f.mod.name, x) for x in paths}

        try:
            tpaths = norm(p.trace(arg))
        except KeyError:
            continue
        cn = g.node_containing(c)

        def is_tokens(x, tpaths=tpaths):
            if not isinstance(x, (ast.Name, ast.Attribute)):
                return False
            try:
                return bool(tpaths) and norm(p.trace(x)) == tpaths
            except KeyError:
                return False

        memo: Dict[int, Optional[str]] = {}

        def matcher(e, is_tokens=is_tokens, memo=memo):
            if id(e) not in memo:
                memo[id(e)] = _empty_atom(e, is_tokens, pm) if isinstance(e, (ast.Compare, ast.Call, ast.Name, ast.Attribute)) else None
            return memo[id(e)]

        G = L.Guards(f, _with_operator_forms(repo, f, matcher))
        if "empty" not in G.atoms_seen or cn is None:
            continue
        rest = G.reach({"empty": False}, start=cn)
        done = G.reach({"empty": True}, start=cn)
        if g.raise_ in rest and g.exit not in rest and g.exit in done:
            ok = True
    if ok:
        r.ok({"end_of_input_check": True})
    else:
        r.fail(Finding("C11.eof", f, "missing:end-of-input-check", "parse() returns the first form and never looks at the remaining tokens: '(a b))' and "
                       "'(a b) (c d)' are accepted and the tail is ignored"))
    r.require_sites(1)
    return r


# --------------------------------------------------------------------------- table-driven dispatch -> if chains (local pre-pass)
_KEEP: Dict[Tuple[int, str, int], Tuple[FuncInfo, FuncInfo]] = {}      # (the original is kept alive so that the id stays unique)


def _dispatch_table(repo: Repo, fi: FuncInfo, fn: ast.FunctionDef, e: ast.AST) -> Optional[Tuple[ast.Dict, str]]:
    """the dict display with distinct constant string keys behind an expression (a display, a local name assigned once, a module
    constant, a class-level constant, an attribute that __init__ sets once) and where it lives ('local' | 'module' | 'class' | 'init')"""
    d, where = None, "local"
    if isinstance(e, ast.Dict):
        d = e
    elif isinstance(e, ast.Name):
        stores = [n for n in ast.walk(fn) if isinstance(n, ast.Name) and n.id == e.id and isinstance(n.ctx, (ast.Store, ast.Del))]
        if stores or e.id in fi.params:
            vals = [st.value for st in ast.walk(fn) if isinstance(st, (ast.Assign, ast.AnnAssign)) and st.value is not None and
                    any(isinstance(t, ast.Name) and t.id == e.id for t in (st.targets if isinstance(st, ast.Assign) else [st.target]))]
            if len(stores) != 1 or len(vals) != 1 or e.id in fi.params:
                return None
            d = vals[0]
            for n in ast.walk(fn):        # the local table is not changed afterwards
                if isinstance(n, ast.Subscript) and isinstance(n.ctx, (ast.Store, ast.Del)) and isinstance(n.value, ast.Name) and n.value.id == e.id:
                    return None
                if isinstance(n, ast.Call) and isinstance(n.func, ast.Attribute) and isinstance(n.func.value, ast.Name) and n.func.value.id == e.id and \
                        n.func.attr in ("update", "pop", "popitem", "setdefault", "clear", "__setitem__", "__delitem__"):
                    return None
        else:
            r = repo.lookup(fi.mod.name, e.id)
            d, where = (r[1], "module") if r and r[0] == "const" else (None, "")
    elif isinstance(e, ast.Attribute) and isinstance(e.value, ast.Name) and fi.cls and e.value.id in (fi.self_name, fi.cls, "cls"):
        for c in repo.mro(fi.cls):
            for st in repo.classes[c].node.body:
                tg = st.targets if isinstance(st, ast.Assign) else ([st.target] if isinstance(st, ast.AnnAssign) and st.value is not None else [])
                if any(isinstance(t, ast.Name) and t.id == e.attr for t in tg):
                    d, where = st.value, "class"
            if d is not None:
                break
        stores = []
        for c in repo.mro(fi.cls):
            for m in repo.classes[c].methods.values():
                for n in ast.walk(m):
                    if isinstance(n, ast.Attribute) and n.attr == e.attr and isinstance(n.ctx, (ast.Store, ast.Del)):
                        stores.append((m, n))
                    if isinstance(n, ast.Subscript) and isinstance(n.ctx, (ast.Store, ast.Del)) and isinstance(n.value, ast.Attribute) and n.value.attr == e.attr:
                        return None
                    if isinstance(n, ast.Call) and isinstance(n.func, ast.Attribute) and isinstance(n.func.value, ast.Attribute) and n.func.value.attr == e.attr and \
                            n.func.attr in ("update", "pop", "popitem", "setdefault", "clear"):
                        return None
        if d is None and len(stores) == 1 and stores[0][0].name == "__init__" and e.value.id == fi.self_name:
            init = stores[0][0]
            for st in init.body:          # (an unconditional statement of the constructor)
                if isinstance(st, (ast.Assign, ast.AnnAssign)) and st.value is not None and any(t is stores[0][1] for t in (st.targets if isinstance(st, ast.Assign) else [st.target])):
                    d, where = st.value, "init"
        elif stores:
            return None
    if not isinstance(d, ast.Dict) or not d.keys or not all(isinstance(k, ast.Constant) and isinstance(k.value, str) for k in d.keys):
        return None
    if len({k.value for k in d.keys}) != len(d.keys):
        return None
    return d, where


def _undispatch(repo: Repo, fi: FuncInfo) -> FuncInfo:
    """`h = TABLE.get(key[, default])` / `h = TABLE[key]` ... `h(args)`, `TABLE[key](args)`, `h is None`, `key in TABLE` over a table of
    callables with constant keys are rewritten (on a copy of the function) into the equivalent chain of `key == <constant>` tests that
    call the table's entries directly -- the form the inliner and the guard valuation understand.  `try: h = TABLE[key] / except
    KeyError: B` becomes `if key not in TABLE: B / else: h = TABLE[key]`."""
    ck = (id(repo), fi.qn, id(fi.node))
    if ck in _KEEP:
        return _KEEP[ck][1]
    fn = copy.deepcopy(fi.node)
    changed = [False]
    counter = [0]

    def lookup(e: ast.AST):
        """(table, where, key expr, default expr | None, mode) for T.get(K[, D]) / T[K]"""
        if isinstance(e, ast.Call) and isinstance(e.func, ast.Attribute) and e.func.attr == "get" and 1 <= len(e.args) <= 2 and not e.keywords:
            t = _dispatch_table(repo, fi, fn, e.func.value)
            if t is not None:
                return t[0], t[1], e.args[0], (e.args[1] if len(e.args) == 2 else None), "get"
        if isinstance(e, ast.Subscript) and isinstance(e.ctx, ast.Load) and not isinstance(e.slice, ast.Slice):
            t = _dispatch_table(repo, fi, fn, e.value)
            if t is not None:
                return t[0], t[1], e.slice, None, "item"
        return None

    def stores_of(name: str) -> int:
        return sum(1 for n in ast.walk(fn) if isinstance(n, ast.Name) and n.id == name and isinstance(n.ctx, (ast.Store, ast.Del)))

    def stable_key(k: ast.AST) -> bool:
        return isinstance(k, ast.Name) and stores_of(k.id) + (1 if k.id in fi.params else 0) <= 1

    handlers: Dict[str, tuple] = {}

    def cmp_(k: ast.AST, const: ast.Constant, eq: bool) -> ast.Compare:
        return ast.Compare(left=copy.deepcopy(k), ops=[ast.Eq() if eq else ast.NotEq()], comparators=[ast.Constant(value=const.value)])

    def any_key(table: ast.Dict, k: ast.AST, member: bool) -> ast.AST:
        parts = [cmp_(k, c, member) for c in table.keys]
        return parts[0] if len(parts) == 1 else ast.BoolOp(op=ast.Or() if member else ast.And(), values=parts)

    def callee(val: ast.AST, where: str, call: ast.Call) -> ast.Call:
        new = copy.deepcopy(call)
        if by_name(call) is not None:
            # getattr(obj, TABLE[key])(args) over a table of method names  ->  obj.<name>(args)
            if isinstance(val, ast.Constant) and isinstance(val.value, str) and val.value.isidentifier():
                new.func = ast.Attribute(value=copy.deepcopy(call.func.args[0]), attr=val.value, ctx=ast.Load())
            else:
                new.func = ast.Call(func=ast.Name(id="getattr", ctx=ast.Load()), args=[copy.deepcopy(call.func.args[0]), copy.deepcopy(val)], keywords=[])
        elif where == "class" and isinstance(val, ast.Name) and fi.cls and fi.self_name and repo.find_method(fi.cls, val.id) is not None \
                and call.args and isinstance(call.args[0], ast.Name) and call.args[0].id == fi.self_name:
            new.func = ast.Attribute(value=ast.Name(id=fi.self_name, ctx=ast.Load()), attr=val.id, ctx=ast.Load())
            new.args = new.args[1:]
        else:
            new.func = copy.deepcopy(val)
        return new

    def chain(info, call: ast.Call, make) -> ast.stmt:
        table, where, k, default, mode = info
        if default is not None:
            last: ast.stmt = make(callee(default, "local", call))
        elif mode == "get":
            last = ast.Raise(exc=ast.Call(func=ast.Name(id="TypeError", ctx=ast.Load()), args=[], keywords=[]), cause=None)
        else:
            last = ast.Raise(exc=ast.Call(func=ast.Name(id="KeyError", ctx=ast.Load()), args=[copy.deepcopy(k)], keywords=[]), cause=None)
        for key, val in reversed(list(zip(table.keys, table.values))):
            last = ast.If(test=cmp_(k, key, True), body=[make(callee(val, where, call))], orelse=[last])
        return last

    def by_name(c: ast.Call) -> Optional[ast.AST]:
        f_ = c.func
        if isinstance(f_, ast.Call) and isinstance(f_.func, ast.Name) and f_.func.id == "getattr" and len(f_.args) == 2 and not f_.keywords and isinstance(f_.args[0], ast.Name):
            return f_.args[1]
        return None

    def info_of_call(c: ast.AST):
        if not isinstance(c, ast.Call):
            return None
        sel = by_name(c)
        if sel is not None:
            if isinstance(sel, ast.Name) and sel.id in handlers:
                return handlers[sel.id]
            lk = lookup(sel)
            return lk if lk is not None and stable_key(lk[2]) else None
        if isinstance(c.func, ast.Name) and c.func.id in handlers:
            return handlers[c.func.id]
        lk = lookup(c.func)
        if lk is not None and stable_key(lk[2]):
            return lk
        return None

    class Tests(ast.NodeTransformer):
        def visit_Compare(self, n):
            self.generic_visit(n)
            if len(n.ops) == 1:
                l, op, r_ = n.left, n.ops[0], n.comparators[0]
                if isinstance(op, (ast.Is, ast.IsNot, ast.Eq, ast.NotEq)) and isinstance(r_, ast.Constant) and r_.value is None and isinstance(l, ast.Name) and l.id in handlers:
                    table, _w, k, default, mode = handlers[l.id]
                    if mode == "get" and default is None:
                        changed[0] = True
                        return any_key(table, k, isinstance(op, (ast.IsNot, ast.NotEq)))
                if isinstance(op, (ast.In, ast.NotIn)) and stable_key(l):
                    t = _dispatch_table(repo, fi, fn, r_.func.value if isinstance(r_, ast.Call) and isinstance(r_.func, ast.Attribute) and r_.func.attr == "keys" and not r_.args else r_)
                    if t is not None:
                        changed[0] = True
                        return any_key(t[0], l, isinstance(op, ast.In))
            return n

    def block(stmts: List[ast.stmt]) -> List[ast.stmt]:
        out: List[ast.stmt] = []
        for st in stmts:
            # try: h = T[K] / except KeyError: B   ->   if K not in T: B / else: h = T[K] (+ else clause)
            if isinstance(st, ast.Try) and len(st.body) == 1 and len(st.handlers) == 1 and not st.finalbody and isinstance(st.body[0], ast.Assign) \
                    and isinstance(st.handlers[0].type, ast.Name) and st.handlers[0].type.id in ("KeyError", "LookupError") and st.handlers[0].name is None:
                lk = lookup(st.body[0].value)
                if lk is not None and lk[4] == "item" and stable_key(lk[2]):
                    changed[0] = True
                    out.extend(block([ast.If(test=any_key(lk[0], lk[2], False), body=st.handlers[0].body, orelse=st.body + st.orelse)]))
                    continue
            for fld in ("body", "orelse", "finalbody"):
                if isinstance(getattr(st, fld, None), list) and not isinstance(st, (ast.FunctionDef, ast.AsyncFunctionDef, ast.ClassDef)):
                    setattr(st, fld, block(getattr(st, fld)))
            for h in getattr(st, "handlers", []) or []:
                h.body = block(h.body)
            if isinstance(st, ast.Assign) and len(st.targets) == 1 and isinstance(st.targets[0], ast.Name) and stores_of(st.targets[0].id) == 1:
                lk = lookup(st.value)
                if lk is not None:
                    table, where, k, default, mode = lk
                    if not stable_key(k):
                        counter[0] += 1
                        kn = f"__key__d{counter[0]}"
                        out.append(ast.Assign(targets=[ast.Name(id=kn, ctx=ast.Store())], value=k, lineno=st.lineno, col_offset=st.col_offset))
                        k = ast.Name(id=kn, ctx=ast.Load())
                        if mode == "get":
                            st.value.args[0] = copy.deepcopy(k)
                        else:
                            st.value.slice = copy.deepcopy(k)
                        changed[0] = True
                    handlers[st.targets[0].id] = (table, where, k, default, mode)
                    if mode == "item":
                        changed[0] = True
                        out.append(ast.If(test=any_key(table, k, False), body=[ast.Raise(exc=ast.Call(func=ast.Name(id="KeyError", ctx=ast.Load()), args=[copy.deepcopy(k)],
                                                                                                              keywords=[]), cause=None)], orelse=[]))
                    out.append(st)
                    continue
            new = None
            if isinstance(st, ast.Return) and st.value is not None:
                info = info_of_call(st.value)
                if info is not None:
                    new = chain(info, st.value, lambda c: ast.Return(value=c))
            elif isinstance(st, ast.Expr):
                info = info_of_call(st.value)
                if info is not None:
                    new = chain(info, st.value, lambda c: ast.Expr(value=c))
            elif isinstance(st, (ast.Assign, ast.AnnAssign)) and st.value is not None:
                info = info_of_call(st.value)
                if info is not None:
                    def mk(c, st=st):
                        s2 = copy.copy(st)
                        s2.value = c
                        return s2
                    new = chain(info, st.value, mk)
            if new is not None:
                changed[0] = True
                ast.copy_location(new, st)
                out.append(new)
            else:
                out.append(st)
        return out

    class Unbound(ast.NodeTransformer):
        """Cls.method(self, a) in a method of Cls  ->  self.method(a)"""
        def visit_Call(self, n):
            self.generic_visit(n)
            if isinstance(n.func, ast.Attribute) and isinstance(n.func.value, ast.Name) and fi.cls and fi.self_name and n.func.value.id == fi.cls and n.args \
                    and isinstance(n.args[0], ast.Name) and n.args[0].id == fi.self_name and n.func.attr in repo.classes[fi.cls].methods \
                    and n.func.attr not in repo.classes[fi.cls].static:
                changed[0] = True
                n.func = ast.Attribute(value=ast.Name(id=fi.self_name, ctx=ast.Load()), attr=n.func.attr, ctx=ast.Load())
                n.args = n.args[1:]
            return n

    fn.body = block(fn.body)
    Tests().visit(fn)
    Unbound().visit(fn)
    if not changed[0]:
        _KEEP[ck] = (fi, fi)
        return fi

    # the handler variable / the local table are dead now: drop their (side-effect free) assignments
    def pure(e: ast.AST) -> bool:
        return all(isinstance(n, (ast.Dict, ast.Name, ast.Attribute, ast.Constant, ast.Lambda, ast.arguments, ast.arg, ast.expr_context, ast.Subscript, ast.Tuple,
                                  ast.Compare, ast.cmpop, ast.BoolOp, ast.boolop, ast.operator, ast.BinOp, ast.unaryop, ast.UnaryOp)) or
                   (isinstance(n, ast.Call) and isinstance(n.func, ast.Attribute) and n.func.attr == "get") for n in ast.walk(e))

    def prune(stmts: List[ast.stmt]) -> List[ast.stmt]:
        out = []
        for st in stmts:
            if isinstance(st, ast.Assign) and len(st.targets) == 1 and isinstance(st.targets[0], ast.Name) and st.targets[0].id in dead and pure(st.value) and \
                    (st.targets[0].id in handlers or isinstance(st.value, ast.Dict)):
                changed[0] = True
                continue
            for fld in ("body", "orelse", "finalbody"):
                if isinstance(getattr(st, fld, None), list) and not isinstance(st, (ast.FunctionDef, ast.AsyncFunctionDef, ast.ClassDef)):
                    setattr(st, fld, prune(getattr(st, fld)) or ([ast.Pass()] if fld == "body" else []))
            for h in getattr(st, "handlers", []) or []:
                h.body = prune(h.body) or [ast.Pass()]
            out.append(st)
        return out

    for _round in range(3):
        loads = {n.id for n in ast.walk(fn) if isinstance(n, ast.Name) and isinstance(n.ctx, ast.Load)}
        dead = {n.id for n in ast.walk(fn) if isinstance(n, ast.Name) and isinstance(n.ctx, ast.Store)} - loads
        if not dead:
            break
        fn.body = prune(fn.body) or [ast.Pass()]
    ast.fix_missing_locations(fn)
    f2 = FuncInfo(fi.mod, fi.cls, fn, static=fi.static)
    _KEEP[ck] = (fi, f2)
    return f2


def _fn(repo: Repo, spec: str) -> FuncInfo:
    """L.fn after the dispatch pre-pass and the local normalisations of function values / sentinel iterators (_c11_util.prepared)"""
    return U.prepared(repo, _undispatch(repo, repo.func(spec)), 4)


def _unresolved_function_values(repo: Repo, f: FuncInfo) -> Optional[ast.AST]:
    """a call through a local function value (handler(tokens), TABLE[k](tokens)) that is still there after inlining, or a private
    method / function of the repository that is used as a value (handed to partial / map / iter ...) instead of being called"""
    stored = {n.id for n in ast.walk(f.node) if isinstance(n, ast.Name) and isinstance(n.ctx, ast.Store)}
    called = set()
    for c in L.calls_in(f.node):
        called.add(id(c.func))
        if isinstance(c.func, ast.Name) and c.func.id in stored:
            return c
        if isinstance(c.func, (ast.Subscript, ast.Call)):
            return c
    for n in ast.walk(f.node):
        if id(n) in called:
            continue
        if isinstance(n, ast.Attribute) and isinstance(n.ctx, ast.Load) and isinstance(n.value, ast.Name) and n.value.id == f.self_name and f.cls \
                and n.attr.startswith("_") and not n.attr.startswith("__") and repo.find_method(f.cls, n.attr) is not None and not repo.is_property(f.cls, n.attr):
            return n
        if isinstance(n, ast.Name) and isinstance(n.ctx, ast.Load) and n.id.startswith("_") and n.id not in stored and n.id not in f.params:
            r = repo.lookup(f.mod.name, n.id)
            if r is not None and r[0] == "func":
                return n
    return None


# --------------------------------------------------------------------------- C11.reader
def rule_reader(repo: Repo) -> RuleResult:
    r = RuleResult("C11.reader", "read_from_tokens: empty input and stray ')' raise; '(' collects sub-forms until the matching ')' and consumes it; atoms unchanged",
                   "the nested-list structure of the parenthesised tokens")
    f = _fn(repo, READ)
    fv = _unresolved_function_values(repo, f)
    if fv is not None:
        raise AnalysisError(f"read_from_tokens: `{unparse(fv, 60)}` uses a function as a value in a way that is not interpreted")
    p = L.prov(repo, f)
    g = C.cfg_of(f.node)
    rd = L.rd_of(f)
    pm = L.parents_of(f)
    params = [x for x in f.params if x != f.self_name]
    if not params:
        raise AnalysisError("read_from_tokens: the token parameter was not found")
    tokp = params[0]

    def is_tokens(x) -> bool:
        if L.is_param(p, x, tokp):
            return True
        if not isinstance(x, ast.Attribute):
            return False
        # a field of a private record that holds the parameter (Step(head=.., rest=tokens).rest)
        try:
            tr = {U.strip_record_trips(repo, f.mod.name, y) for y in p.trace(x)}
        except KeyError:
            return False
        return bool(tr) and tr == {(f"param:{tokp}",)}

    # statements that consume the first token of the container
    pop_nodes: Set[int] = set()
    for c in L.calls_in(f.node):
        if isinstance(c.func, ast.Attribute) and c.func.attr == "popleft" and is_tokens(c.func.value):
            n = g.node_containing(c)
            if n is not None:
                pop_nodes.add(n)
    for n in g.nodes():
        st = g.stmt[n]
        if isinstance(st, ast.Delete) and any(isinstance(t, ast.Subscript) and is_tokens(t.value) and isinstance(t.slice, ast.Constant) and t.slice.value == 0 for t in st.targets):
            pop_nodes.add(n)
    for c in L.calls_in(f.node):
        if isinstance(c.func, ast.Attribute) and c.func.attr in MUTATORS and c.func.attr != "popleft" and is_tokens(c.func.value):
            raise AnalysisError(f"read_from_tokens: `{unparse(c, 60)}` changes the token container in a way that is not interpreted")
    after_pop: Set[int] = set()
    for n in pop_nodes:
        after_pop |= C.reachable_from(g, n) - ({n} if g.loop_of.get(n) is None else set())
    HEAD = {(f"param:{tokp}", "call:popleft")}
    PEEK = {(f"param:{tokp}", "item:0")}

    def eval_points(x: ast.AST, n: int, depth: int = 0) -> Set[int]:
        """CFG nodes at which the value of x was read from the container"""
        if isinstance(x, ast.Name) and depth < 4:
            out: Set[int] = set()
            for d in rd.defs_reaching(n, x.id):
                st = g.stmt[d] if d != g.entry else None
                if isinstance(st, (ast.Assign, ast.AnnAssign)) and st.value is not None:
                    out |= eval_points(st.value, d, depth + 1)
                else:
                    out.add(d)
            return out or {n}
        return {n}

    def token_kind(x: ast.AST) -> Optional[str]:
        """'head': the token this call dispatches on; 'next': the look-ahead token inside the list"""
        try:
            tr = p.trace(x)
            n = p.node_of(x)
        except KeyError:
            return None
        if not tr:
            return None
        if tr <= HEAD:
            return "head"
        if tr <= PEEK:
            return "next" if eval_points(x, n) & after_pop else "head"
        return None

    memo: Dict[int, Optional[str]] = {}

    def matcher(e):
        k = id(e)
        if k in memo:
            return memo[k]
        memo[k] = None
        out = None
        if isinstance(e, ast.Compare) and len(e.ops) == 1 and isinstance(e.ops[0], (ast.Eq, ast.NotEq)):
            l, rr = e.left, e.comparators[0]
            cl, cr = _const_str(p, l), _const_str(p, rr)
            if cl is not None and cr is None:
                l, rr, cr = rr, l, cl
            if cr is not None and len(cr) == 1 and next(iter(cr)) in ("(", ")"):
                kind = token_kind(l)
                if kind is not None:
                    key = ("open" if next(iter(cr)) == "(" else "close") if kind == "head" else ("next_open" if next(iter(cr)) == "(" else "next_close")
                    out = key if isinstance(e.ops[0], ast.Eq) else "!" + key
        if out is None and isinstance(e, (ast.Compare, ast.Call, ast.Name)):
            out = _empty_atom(e, is_tokens, pm)
            if out is not None:
                # a test after the first token was consumed is about the rest of the input, not about the input of this call
                try:
                    if p.node_of(e) in after_pop:
                        out = out.replace("empty", "empty_later")
                except KeyError:
                    out = None
        memo[k] = out
        return out

    G = L.Guards(f, _with_operator_forms(repo, f, matcher))
    raises = [n for n in g.nodes() if g.kind[n] == "raise"]
    rets = [n for n in g.nodes() if g.kind[n] == "return"]

    # ---- empty input
    r.site(f.qn + " [empty]")
    ok = False
    eafp_nodes: Set[int] = set()
    if "empty" in G.atoms_seen:
        seen = G.reach({"empty": True})
        ok = any(n in seen for n in raises) and not any(n in seen for n in rets) and g.exit not in seen
    else:
        # EAFP: the first access to the container sits in a try whose IndexError handler raises
        first_pop = [m for m in pop_nodes if not any(m in C.reachable_from(g, o) - {o} for o in pop_nodes if o != m)]
        for n in g.nodes():
            st = g.stmt[n]
            if g.kind[n] != "try" or not isinstance(st, ast.Try) or not first_pop:
                continue
            in_body = {g.node_of(s_) for s_ in C.stmts_in(st.body)}
            if not all(m in in_body for m in first_pop):
                continue
            for h in st.handlers:
                names = {x.id for x in ast.walk(h.type) if isinstance(x, ast.Name)} if h.type is not None else {"IndexError"}
                hn = g.node_of(h)
                hs = C.reachable_from(g, hn) if hn is not None else set()
                if names & {"IndexError", "LookupError", "Exception", "BaseException"} and g.raise_ in hs and g.exit not in hs:
                    ok = True
                    eafp_nodes |= hs
    if ok:
        r.ok({"empty_input": "raises"})
    else:
        r.fail(Finding("C11.reader", f, "empty-input", "empty input does not raise"))

    # ---- stray ')'
    r.site(f.qn + " [stray close]")
    seen = G.reach({"empty": False, "open": False, "close": True})
    if "close" in G.atoms_seen and any(n in seen and n not in eafp_nodes for n in raises) and not any(n in seen for n in rets) and g.exit not in seen:
        r.ok({"stray_close": "raises"})
    else:
        r.fail(Finding("C11.reader", f, "stray-close", "a stray ')' does not raise"))

    # ---- atom
    r.site(f.qn + " [atom]")
    val_atom = {"empty": False, "open": False, "close": False}
    seen = G.reach(val_atom)
    atom_rets = [g.stmt[n] for n in rets if n in seen]

    def is_head_token(e: Optional[ast.AST]) -> bool:
        if e is None:
            return False
        tr = _trace_under(f, p, G, val_atom, e, seen)
        return bool(tr) and (tr <= HEAD or (tr <= PEEK and bool(pop_nodes & seen)))

    ok = bool(atom_rets) and all(is_head_token(x_.value) for x_ in atom_rets) and g.exit in seen
    implicit_none = g.exit in G.reach(val_atom, avoid=rets)        # the end of the function can be reached without a return statement
    if ok and not any(n in seen and n not in eafp_nodes for n in raises) and not implicit_none:
        r.ok({"atom": "the popped token itself"})
    else:
        r.fail(Finding("C11.reader", f, "atom", "an atom token is not returned unchanged"))

    # ---- list
    r.site(f.qn + " [list]")
    why = _list_branch(f, p, g, G, tokp, is_tokens, pop_nodes, rets)
    if why is None:
        r.ok({"list": "consume '('; while the next token is not ')': append(read_from_tokens(tokens)); consume ')'; return the list"})
    else:
        r.fail(Finding("C11.reader", f, "list-branch", f"the '(' branch does not collect every sub-form up to the matching ')' and consume it: {why}"))

    # ---- parse() reads from tokenize()
    pf = _fn(repo, PARSE)
    pp = L.prov(repo, pf)
    r.site(pf.qn)
    ok = False
    for c in L.calls_in(pf.node):
        if callee_name(c) == "read_from_tokens":
            arg = c.args[0] if c.args else next((k.value for k in c.keywords if k.arg == tokp), None)
            if arg is None:
                continue
            tr = {U.strip_record_trips(repo, pf.mod.name, x) for x in pp.trace(arg)}
            if tr and any(x[:2] == ("self", "call:tokenize") and set(x[2:]) <= {"arg0:deque", "call:copy"} for x in tr) and \
                    all(x[:2] == ("self", "call:tokenize") or x[0].startswith(("fresh:", "ext:", "global:")) for x in tr):
                ok = True
                # nothing may be taken out of / put into the container between tokenize() and the reader
                pg = C.cfg_of(pf.node)
                cn = pg.node_containing(c)
                for m in L.calls_in(pf.node):
                    if m is c or not isinstance(m.func, ast.Attribute) or m.func.attr not in MUTATORS:
                        continue
                    try:
                        same = {U.strip_record_trips(repo, pf.mod.name, x) for x in pp.trace(m.func.value)} == tr
                    except KeyError:
                        same = False
                    mn = pg.node_containing(m)
                    if same and mn is not None and cn is not None and cn in C.reachable_from(pg, mn) and mn != cn:
                        ok = False
                for n in pg.nodes():
                    st = pg.stmt[n]
                    tg = st.targets if isinstance(st, (ast.Delete, ast.Assign)) else []
                    for t in tg:
                        try:
                            if isinstance(t, ast.Subscript) and {U.strip_record_trips(repo, pf.mod.name, x) for x in pp.trace(t.value)} == tr and cn is not None and cn in C.reachable_from(pg, n) and n != cn:
                                ok = False
                        except KeyError:
                            pass
    if ok:
        r.ok({"parse": "read_from_tokens(self.tokenize())"})
    else:
        r.fail(Finding("C11.reader", pf, "parse-source", "parse() does not read exactly the tokens produced by tokenize()"))
    r.require_sites(5)
    return r


def _trace_under(f: FuncInfo, p, G: L.Guards, val: Dict[str, bool], e: ast.AST, seen: Set[int]) -> Set[tuple]:
    """provenance of e under the valuation; for a local name the definitions that cannot reach the use along a path the valuation
    allows (`x = a; if c: x = b; return x` with c true) do not contribute"""
    g = G.g
    tr = p.trace(e, under=G.under(val, seen))
    if not isinstance(e, ast.Name):
        return tr
    try:
        n = p.node_of(e)
    except KeyError:
        return tr
    rd = L.rd_of(f)
    defs = rd.defs_reaching(n, e.id)
    all_defs = {d for d in g.nodes() if g.stmt[d] is not None and e.id in C.defs_of(g.stmt[d])}
    live, dead = set(), set()
    for d in defs:
        if d == g.entry or d not in seen:
            continue
        st = g.stmt[d]
        if not (isinstance(st, ast.Assign) and len(st.targets) == 1 and isinstance(st.targets[0], ast.Name)):
            return tr
        succs = set()
        for m, _l in g.succ[d]:
            succs |= G.reach(val, avoid=all_defs, start=m) if m not in all_defs else set()
        (live if n in succs else dead).add(d)
    if not dead or not live:
        return tr
    keep = set()
    for d in live:
        keep |= p.trace(g.stmt[d].value, at=d)
    drop = set()
    for d in dead:
        drop |= p.trace(g.stmt[d].value, at=d)
    return tr - (drop - keep)


def _list_branch(f: FuncInfo, p, g: C.CFG, G: L.Guards, tokp: str, is_tokens, pop_nodes: Set[int], rets: List[int]) -> Optional[str]:
    """None when the '(' case is the reader loop; otherwise what is wrong"""
    val = {"empty": False, "open": True, "close": False}
    seen = G.reach(val)
    rec_self = ("self", f"call:{f.name}")
    rec_arg = {(f"param:{tokp}", f"arg0:{f.name}"), (f"param:{tokp}", f"kw:{tokp}:{f.name}")}

    def is_rec(e: ast.AST) -> bool:
        try:
            tr = p.trace(e)
        except KeyError:
            return False
        return bool(tr & rec_arg) and tr <= (rec_arg | {rec_self})

    adds = [(el, site) for el, conds, site, comp in L.container_additions(f, lambda recv: isinstance(recv, ast.Name)) if conds == [] and comp is None and is_rec(el)]
    adds = [(el, site) for el, site in adds if (g.node_containing(site) if not isinstance(site, ast.stmt) else g.node_of(site)) in seen]
    if not adds:
        return "no statement adds the result of the recursive call on the same tokens to a list"
    if len(adds) > 1:
        return "the recursive result is added at more than one place"
    el, site = adds[0]
    an = g.node_containing(site) if not isinstance(site, ast.stmt) else g.node_of(site)
    # the reader is called once per sub-form: a second recursive call (whose result is dropped or used otherwise) consumes a sub-form
    rec_calls = [c for c in L.calls_in(f.node) if callee_name(c) == f.name and g.node_containing(c) in seen]
    if len(rec_calls) > 1:
        return "the reader is called recursively at more than one place: a sub-form is consumed without being collected"
    head = g.loop_of.get(an)
    if head is None:
        return "the recursive call is not repeated in a loop"
    if "next_close" not in G.atoms_seen:
        return "the loop does not look at the next token to find the matching ')'"
    # '(' consumed before the loop
    if head in G.reach(val, avoid=pop_nodes):
        return "the loop can be entered without the '(' having been consumed"
    # next token is ')': leave the loop, consume it, return the list
    # (reachability is computed from the entry so that flags set before the loop keep their value)
    vc = dict(val, next_close=True)
    sc = G.reach(vc)
    if an in sc:
        return "a sub-form is read although the next token is ')'"
    out_rets = [n for n in rets if n in sc]
    if not out_rets or g.exit in G.reach(vc, avoid=rets):        # (falling off the end: the exit reached around every return)
        return "after the matching ')' the list is not returned"
    pop_after = pop_nodes & C.reachable_from(g, head)
    if g.exit in G.reach(vc, avoid=pop_after):
        return "the matching ')' is not consumed before returning"
    # next token is not ')': exactly one sub-form is appended per iteration and the loop goes on
    vo = dict(val, next_close=False)
    so = G.reach(vo)
    if an not in so:
        return "no sub-form is read although the next token is not ')'"
    if g.exit in so:
        return "the loop can be left although the next token is not ')'"
    if _iteration_without(G, g, vo, head, [an]) is not None:
        return "an iteration can finish without reading a sub-form"
    if pop_after & so:
        return "a token is dropped inside the loop although the next token is not ')'"
    # the list that is returned is the one the sub-forms were added to
    for n in out_rets:
        rv = g.stmt[n].value
        tr = _trace_under(f, p, G, val, rv, seen) if rv is not None else set()
        content = [x for x in tr if x[:2] in rec_arg or x[:2] == rec_self]
        shell = [x for x in tr if x not in content]
        if not any(x[:2] in rec_arg for x in content):
            return "the returned value is not the list the sub-forms were added to"
        if not all(all(s.startswith(("in:append@", "in:extend@", "in:0", "aug:", "in:insert@")) for s in x[2:]) and len(x) > 2 for x in content):
            return "the collected sub-forms are transformed before they are returned"
        if not all((x[0] in ("fresh:list", "fresh:list()") or x[0].startswith("aug:")) and all(s_.startswith("aug:") for s_ in x[1:]) for x in shell):
            return f"the returned value also derives from {sorted(shell)[:2]}"
    return None


def rules(repo: Repo, tier: str) -> List[RuleResult]:
    return [rule_pipeline(repo), rule_eof(repo), rule_reader(repo)]
