"""Local engine features of the C10 / C14 / C16.export rules.

`deep(repo, spec)` -- the flattened function (`L.fn`) taken further, on an AST copy, by exact rewrites the flattener does not do (all
candidates for promotion into sa/inline.py):

  * `Cls._m(x, a)`                                   -> `x._m(a)`  (so that the helper is analysed in place with receiver x)
  * a private generator helper called in an expression: straight-line generators (`yield A; yield B`) become the display `(A, B)`,
    a nest of `for` / `if` around one `yield` becomes a generator expression
  * `all(E for t in zip(D1, D2))` / `any(..)` over displays -> `E1 and E2 ..` / `E1 or E2 ..`
  * private helper calls *inside comprehensions* (where the statement inliner does not look) are replaced by the expression the
    helper computes when it has one (single-use temporaries are put back in place)
  * a comprehension iterating a comprehension is one comprehension; `dict(<pairs comprehension>)` is a dict comprehension;
    `dict(zip(K, (E for v in V)))` is `{k: E for k, v in zip(K, V)}`
  * list building: `X = [a, *G]`, `X.extend(G)`, `for v in (E for ..)`, `for v in (A, B)` are written as loops with `X.append(e)`,
    one statement per element
  * module constants of the module a helper was taken from are folded like those of the anchor's own module

`Positions` -- which elements (affine index a + s*k in the k-th iteration of a loop) of a token sequence a value is computed from,
through ranges, slices, `zip`, `enumerate`, `itertools.count`, induction variables of `while` loops, records and tuples.
"""
from __future__ import annotations

import ast
import copy
import itertools
import os
from typing import Dict, Iterable, List, Optional, Set, Tuple

from .. import cfg as C
from .. import lib as L
from ..core import FuncInfo, Repo
from ..inline import (MAX_DEPTH, Flattener, FoldedConstant, _Desugar, NotInlinable, _is_private, _loops_over_generators, _map_blocks, _own_jumps, _own_jumps_to_blocks,
                      _resolve_generator,
                      _walk_scope, apply_bound_function_values, devirtualise_calls, expand_generators, flatten, normalise_body,
                      propagate_constants, specialise)
from ..cfg import InlineBlock, InlineJump

_counter = itertools.count(1)
_cache: Dict[tuple, FuncInfo] = {}
_keep: List[object] = []
DEBUG = bool(os.environ.get("C10_UTIL_DEBUG"))

COMPS = (ast.ListComp, ast.SetComp, ast.GeneratorExp, ast.DictComp)
SCOPES = (ast.FunctionDef, ast.AsyncFunctionDef, ast.Lambda, ast.ClassDef)


# ------------------------------------------------------------------------------------------------ small helpers
def _is_pure(e: ast.AST) -> bool:
    """evaluating it twice (or not at all) is the same as evaluating it once: constants, names, attribute paths on names"""
    if isinstance(e, ast.Constant):
        return True
    while isinstance(e, ast.Attribute):
        e = e.value
    return isinstance(e, ast.Name)


def _stored_names(node: ast.AST) -> Set[str]:
    out: Set[str] = set()
    for n in ast.walk(node):
        if isinstance(n, ast.Name) and not isinstance(n.ctx, ast.Load):
            out.add(n.id)
        elif isinstance(n, ast.arg):
            out.add(n.arg)
        elif isinstance(n, ast.ExceptHandler) and n.name:
            out.add(n.name)
    return out


def _uses(node, name: str) -> int:
    nodes = node if isinstance(node, list) else [node]
    return sum(1 for r in nodes for x in ast.walk(r) if isinstance(x, ast.Name) and x.id == name and isinstance(x.ctx, ast.Load))


def _stores(node, name: str) -> int:
    nodes = node if isinstance(node, list) else [node]
    return sum(1 for r in nodes for x in ast.walk(r) if isinstance(x, ast.Name) and x.id == name and not isinstance(x.ctx, ast.Load))


class _Subst(ast.NodeTransformer):
    def __init__(self, mapping: Dict[str, ast.AST]):
        self.m = mapping

    def visit_Name(self, n):
        if n.id in self.m and isinstance(n.ctx, ast.Load):
            return ast.copy_location(copy.deepcopy(self.m[n.id]), n)
        return n


def _subst(node, mapping: Dict[str, ast.AST]):
    return _Subst(mapping).visit(copy.deepcopy(node))


def _bind_target(target: ast.AST, value: ast.AST, out: Dict[str, ast.AST]) -> bool:
    """loop variables := parts of the element expression (tuple targets need a tuple display)"""
    if isinstance(target, ast.Name):
        out[target.id] = value
        return True
    if isinstance(target, (ast.Tuple, ast.List)) and isinstance(value, (ast.Tuple, ast.List)) and len(target.elts) == len(value.elts) \
            and not any(isinstance(x, ast.Starred) for x in list(target.elts) + list(value.elts)):
        return all(_bind_target(t, v, out) for t, v in zip(target.elts, value.elts))
    return False


def _can_substitute(mapping: Dict[str, ast.AST], where) -> bool:
    """every variable is read at most once (or its value is pure) and never rebound in `where`"""
    for name, val in mapping.items():
        if _stores(where, name):
            return False
        if _uses(where, name) > 1 and not _is_pure(val):
            return False
    for r in (where if isinstance(where, list) else [where]):
        if any(isinstance(x, (ast.FunctionDef, ast.AsyncFunctionDef, ast.Global, ast.Nonlocal)) for x in ast.walk(r)):
            return False
    return True


_ALLOCATING = (ast.Call, ast.List, ast.Tuple, ast.Set, ast.Dict, ast.ListComp, ast.SetComp, ast.DictComp, ast.GeneratorExp)


def _fix(new, at):
    """synthesised nodes get the line of the code they stand for; those that create an object get a column of their own (the effect
    analysis names allocation sites by position)"""
    for x in (new if isinstance(new, list) else [new]):
        for sub in ast.walk(x):
            if isinstance(sub, (ast.expr, ast.stmt)) and not hasattr(sub, "lineno"):
                ast.copy_location(sub, at)
                if isinstance(sub, _ALLOCATING) and hasattr(sub, "col_offset"):
                    sub.col_offset = 1000 + next(_counter)
        ast.fix_missing_locations(x)
    return new


def _display(e: ast.AST) -> Optional[List[ast.AST]]:
    if isinstance(e, (ast.Tuple, ast.List)) and not any(isinstance(x, ast.Starred) for x in e.elts):
        return list(e.elts)
    return None


# ------------------------------------------------------------------------------------------------ the normaliser
class _Norm:
    def __init__(self, repo: Repo, raw: FuncInfo, flat: FuncInfo, fn: ast.FunctionDef, also):
        self.repo, self.raw, self.flat, self.fn, self.also = repo, raw, flat, fn, also
        self.ctxs: List[FuncInfo] = [raw]
        for qn in getattr(flat, "inlined", []) or []:
            fi = repo.funcs.get(qn)
            if fi is not None and all(fi.mod is not c.mod for c in self.ctxs):
                self.ctxs.append(fi)
        self.stack = (raw.qn,)
        self._tables_done: Set[str] = set()

    # -------------------------------------------------------------- engine steps
    def reflatten(self) -> None:
        fn, repo, raw = self.fn, self.repo, self.raw
        fl = Flattener(repo, raw, MAX_DEPTH, self.also)
        fn.body = fl._flatten_block(_loops_over_generators(repo, raw, normalise_body(list(fn.body), repo, raw)), raw, self.stack, 1)
        try:
            expand_generators(repo, raw, fn, self.stack)
        except (KeyError, AttributeError, TypeError, ValueError, IndexError):
            pass
        for _ in range(3):
            a = apply_bound_function_values(repo, raw, fn)
            b = devirtualise_calls(repo, raw, fn)
            if not (a or b):
                break
            fn.body = fl._flatten_block(normalise_body(list(fn.body), repo, raw), raw, self.stack, 1)
        for qn in fl.inlined:
            fi = repo.funcs.get(qn)
            if fi is not None and all(fi.mod is not c.mod for c in self.ctxs):
                self.ctxs.append(fi)
        propagate_constants(repo, raw, fn)
        specialise(fn)
        ast.fix_missing_locations(fn)

    def run(self) -> bool:
        changed = False
        for _round in range(6):
            step = False
            for t in (self.foreign_constants, self.class_constants, self.constant_tables, self.spread_stars, self.unbound_method_calls, self.local_tables, self.generator_calls, self.quantifiers_over_displays,
                      self.helpers_in_comprehensions, self.percent_templates, self.generator_streams, self.pop_then_append, self.lazy_streams, self.fuse_comprehensions, self.dict_forms, self.list_building):
                got = t()
                if DEBUG and got:
                    print(f"[c10_util] {self.raw.qn}: {t.__name__}")
                step = got or step
            if not step:
                break
            changed = True
            ast.fix_missing_locations(self.fn)
            self.reflatten()
        return changed

    # -------------------------------------------------------------- T6 constants of the helpers' modules
    def _local(self) -> Set[str]:
        return _stored_names(self.fn)

    def _foreign_const(self, name: str, prefer: Optional[FuncInfo] = None):
        """(found, value) of a literal module constant of one of the modules helpers were taken from (not of the anchor's module)"""
        try:
            if prefer is None and self.repo.lookup(self.raw.mod.name, name):
                return False, None
        except Exception:
            return False, None
        vals = []
        for c in ([prefer] if prefer is not None else self.ctxs[1:]):
            try:
                r = self.repo.lookup(c.mod.name, name)
            except Exception:
                r = None
            if r and r[0] == "const" and isinstance(r[1], ast.Constant) and (r[1].value is None or isinstance(r[1].value, (str, int, float, bool))):
                vals.append(r[1].value)
            elif r:
                return False, None
        if vals and all(type(v) is type(vals[0]) and v == vals[0] for v in vals):
            return True, vals[0]
        return False, None

    def _fold_names(self, root: ast.AST, local: Set[str], prefer: Optional[FuncInfo] = None) -> bool:
        norm = self
        changed = [False]

        class T(ast.NodeTransformer):
            def visit_Name(self, n):
                if isinstance(n.ctx, ast.Load) and n.id not in local:
                    ok, v = norm._foreign_const(n.id, prefer)
                    if ok:
                        c = FoldedConstant(value=v)
                        c.const_name = n.id
                        changed[0] = True
                        return ast.copy_location(c, n)
                return n

        T().visit(root)
        return changed[0]

    def foreign_constants(self) -> bool:
        if len(self.ctxs) < 2:
            return False
        return self._fold_names(self.fn, self._local() | {"None", "True", "False"})

    # -------------------------------------------------------------- class-level literal constants
    def class_constants(self) -> bool:
        """`self.X` / `cls.X` / `Cls.X` where X is bound once in the class body to a literal and never assigned through an instance or the
        class is that literal (like module-level constants)"""
        raw, repo = self.raw, self.repo
        local = self._local()
        helper = _Desugar(None, repo, raw)
        changed = [False]

        class T(ast.NodeTransformer):
            def visit_Attribute(self, n):
                self.generic_visit(n)
                if not (isinstance(n.ctx, ast.Load) and isinstance(n.value, ast.Name)):
                    return n
                cls = None
                if raw.cls and n.value.id in ((raw.self_name or "self"), "cls") and (n.value.id == raw.self_name or n.value.id not in local):
                    cls = raw.cls
                elif n.value.id in repo.classes and n.value.id not in local:
                    cls = n.value.id
                if cls is None:
                    return n
                try:
                    node = helper._class_attr(cls, n.attr)
                except Exception:
                    node = None
                if isinstance(node, ast.Constant) and (node.value is None or isinstance(node.value, (str, int, float, bool))):
                    # an instance attribute of the same name assigned anywhere in the class hierarchy shadows it
                    for c in repo.mro(cls):
                        if c in repo.classes:
                            for m in repo.classes[c].methods.values():
                                for x in ast.walk(m):
                                    if isinstance(x, ast.Attribute) and x.attr == n.attr and not isinstance(x.ctx, ast.Load):
                                        return n
                    c_ = FoldedConstant(value=node.value)
                    c_.const_name = f"{cls}.{n.attr}"
                    changed[0] = True
                    return ast.copy_location(c_, n)
                return n

        T().visit(self.fn)
        return changed[0]

    # -------------------------------------------------------------- f(*(a, b)) -> f(a, b)
    def spread_stars(self) -> bool:
        changed = [False]

        def spread(elts: List[ast.expr]) -> List[ast.expr]:
            out: List[ast.expr] = []
            for x in elts:
                if isinstance(x, ast.Starred) and isinstance(x.value, (ast.Tuple, ast.List)):
                    changed[0] = True
                    out.extend(spread(list(x.value.elts)))
                else:
                    out.append(x)
            return out

        # (F(*t) for t in D.items()) / zip(A, B) / enumerate(X): the elements are tuples of known length -> (F(a, b) for a, b in ..)
        for n in ast.walk(self.fn):
            if not isinstance(n, COMPS):
                continue
            for gen in n.generators:
                if not isinstance(gen.target, ast.Name):
                    continue
                it = gen.iter
                arity = None
                if isinstance(it, ast.Call) and isinstance(it.func, ast.Attribute) and it.func.attr == "items" and not it.args and not it.keywords:
                    arity = 2
                elif isinstance(it, ast.Call) and isinstance(it.func, ast.Name) and it.func.id == "enumerate" and it.func.id not in self._local():
                    arity = 2
                elif isinstance(it, ast.Call) and isinstance(it.func, ast.Name) and it.func.id == "zip" and it.func.id not in self._local() and it.args \
                        and not it.keywords and not any(isinstance(a, ast.Starred) for a in it.args):
                    arity = len(it.args)
                if arity is None:
                    continue
                nm = gen.target.id
                starred = [x for x in ast.walk(n) if isinstance(x, ast.Starred) and isinstance(x.value, ast.Name) and x.value.id == nm]
                if not starred or _uses(n, nm) != len(starred) or _stores(n, nm) != 1:
                    continue
                k = next(_counter)
                names = [f"{nm}__s{k}_{i}" for i in range(arity)]
                gen.target = ast.copy_location(ast.Tuple(elts=[ast.Name(id=x, ctx=ast.Store()) for x in names], ctx=ast.Store()), gen.target)
                for x in starred:
                    x.value = ast.copy_location(ast.Tuple(elts=[ast.Name(id=y, ctx=ast.Load()) for y in names], ctx=ast.Load()), x.value)
                ast.fix_missing_locations(n)
                changed[0] = True
        # bool(<comparisons joined by and / or>) is the expression itself
        def boolean(e: ast.AST) -> bool:
            if isinstance(e, ast.Compare):
                return True
            if isinstance(e, ast.BoolOp):
                return all(boolean(v) for v in e.values)
            return isinstance(e, ast.UnaryOp) and isinstance(e.op, ast.Not)
        local = self._local()

        class B(ast.NodeTransformer):
            def visit_Call(self, c):
                self.generic_visit(c)
                if isinstance(c.func, ast.Name) and c.func.id == "bool" and "bool" not in local and len(c.args) == 1 and not c.keywords and boolean(c.args[0]):
                    changed[0] = True
                    return c.args[0]
                return c

        B().visit(self.fn)
        for n in ast.walk(self.fn):
            if isinstance(n, ast.Call) and any(isinstance(a, ast.Starred) for a in n.args):
                n.args = spread(list(n.args))
            elif isinstance(n, (ast.List, ast.Tuple, ast.Set)) and isinstance(getattr(n, "ctx", ast.Load()), ast.Load) and any(isinstance(a, ast.Starred) for a in n.elts):
                n.elts = spread(list(n.elts))
        return changed[0]

    # -------------------------------------------------------------- T8 tables of constants
    def _const_table(self, e: ast.AST, local: Set[str]) -> Optional[List[ast.Constant]]:
        if isinstance(e, ast.Name) and e.id not in local:
            node = None
            for c in self.ctxs:
                try:
                    node = self.repo.const_node(c.mod.name, e.id)
                except Exception:
                    node = None
                if node is not None:
                    break
            e = node
        if isinstance(e, (ast.Tuple, ast.List, ast.Set)) and e.elts and all(isinstance(x, ast.Constant) for x in e.elts):
            return list(e.elts)
        if isinstance(e, ast.Call) and isinstance(e.func, ast.Name) and e.func.id in ("frozenset", "set", "tuple") and len(e.args) == 1 and not e.keywords:
            return self._const_table(e.args[0], local) if not isinstance(e.args[0], ast.Name) else None
        return None

    def _const_dict(self, e: ast.AST, local: Set[str]) -> Optional[ast.Dict]:
        """a dict display of constants (in place or bound once at module level)"""
        if isinstance(e, ast.Name) and e.id not in local:
            node = None
            for c in self.ctxs:
                try:
                    node = self.repo.const_node(c.mod.name, e.id)
                except Exception:
                    node = None
                if node is not None:
                    break
            e = node
        if isinstance(e, ast.Dict) and e.keys and all(isinstance(k, ast.Constant) for k in e.keys) and all(isinstance(v, ast.Constant) for v in e.values):
            return e
        return None

    def constant_tables(self) -> bool:
        """`x in TABLE` / `x not in TABLE` over a display of constants (in place or bound once at module level) is the disjunction of the
        equalities; `TABLE[i]` with a constant index is the constant"""
        norm = self
        local = self._local()
        changed = [False]

        def simple(e: ast.AST) -> bool:
            if isinstance(e, ast.Subscript):
                return isinstance(e.slice, ast.Constant) and simple(e.value)
            return _is_pure(e) and not isinstance(e, ast.Constant)

        class T(ast.NodeTransformer):
            def visit_Compare(self, n):
                self.generic_visit(n)
                if len(n.ops) == 1 and isinstance(n.ops[0], (ast.In, ast.NotIn)) and simple(n.left):
                    tbl = norm._const_table(n.comparators[0], local)
                    if tbl is not None and 1 <= len(tbl) <= 12:
                        neg = isinstance(n.ops[0], ast.NotIn)
                        terms = [ast.Compare(left=copy.deepcopy(n.left), ops=[ast.NotEq() if neg else ast.Eq()], comparators=[copy.deepcopy(c)]) for c in tbl]
                        new = terms[0] if len(terms) == 1 else ast.BoolOp(op=ast.And() if neg else ast.Or(), values=terms)
                        changed[0] = True
                        return _fix(ast.copy_location(new, n), n)
                return n

            def visit_Subscript(self, n):
                self.generic_visit(n)
                if isinstance(n.ctx, ast.Load) and not isinstance(n.slice, ast.Slice):
                    d = norm._const_dict(n.value, local)
                    if d is not None:
                        keys = [k.value for k in d.keys]
                        key = n.slice
                        if len(keys) == 2 and all(isinstance(k, bool) for k in keys) and set(keys) == {True, False}:
                            # {True: A, False: B}[bool(c)]  is  A if c else B
                            test = None
                            if isinstance(key, ast.Call) and isinstance(key.func, ast.Name) and key.func.id == "bool" and "bool" not in local and len(key.args) == 1 and not key.keywords:
                                test = key.args[0]
                            elif isinstance(key, (ast.Compare, ast.BoolOp)) or (isinstance(key, ast.UnaryOp) and isinstance(key.op, ast.Not)):
                                test = key
                            if test is not None:
                                a = d.values[keys.index(True)]
                                b = d.values[keys.index(False)]
                                changed[0] = True
                                return _fix(ast.copy_location(ast.IfExp(test=test, body=copy.deepcopy(a), orelse=copy.deepcopy(b)), n), n)
                        elif simple(key) and 1 <= len(keys) <= 8:
                            new: ast.expr = ast.Subscript(value=n.value, slice=copy.deepcopy(key), ctx=ast.Load())
                            new._const_lookup_done = True
                            if getattr(n, "_const_lookup_done", False):
                                return n
                            for k, v in reversed(list(zip(d.keys, d.values))):
                                new = ast.IfExp(test=ast.Compare(left=copy.deepcopy(key), ops=[ast.Eq()], comparators=[copy.deepcopy(k)]), body=copy.deepcopy(v), orelse=new)
                            changed[0] = True
                            return _fix(ast.copy_location(new, n), n)
                if isinstance(n.ctx, ast.Load) and isinstance(n.value, ast.Name) and n.value.id not in local:
                    i = n.slice.value if isinstance(n.slice, ast.Constant) and isinstance(n.slice.value, int) and not isinstance(n.slice.value, bool) else None
                    if i is None and isinstance(n.slice, ast.UnaryOp) and isinstance(n.slice.op, ast.USub) and isinstance(n.slice.operand, ast.Constant) \
                            and isinstance(n.slice.operand.value, int):
                        i = -n.slice.operand.value
                    if i is not None:
                        tbl = norm._const_table(n.value, local)
                        if tbl is not None and isinstance(tbl, list) and -len(tbl) <= i < len(tbl):
                            try:
                                node = next(norm.repo.const_node(c.mod.name, n.value.id) for c in norm.ctxs if norm.repo.const_node(c.mod.name, n.value.id) is not None)
                            except StopIteration:
                                return n
                            if isinstance(node, ast.Set):
                                return n
                            c = FoldedConstant(value=tbl[i].value)
                            c.const_name = f"{n.value.id}[{i}]"
                            changed[0] = True
                            return ast.copy_location(c, n)
                return n

        T().visit(self.fn)
        return changed[0]

    # -------------------------------------------------------------- T1 Cls._m(x, ..) -> x._m(..)
    def unbound_method_calls(self) -> bool:
        repo, local = self.repo, self._local()
        changed = [False]

        class T(ast.NodeTransformer):
            def visit_Call(self, c):
                self.generic_visit(c)
                f = c.func
                if isinstance(f, ast.Attribute) and isinstance(f.value, ast.Name) and f.value.id in repo.classes and f.value.id not in local \
                        and c.args and not isinstance(c.args[0], ast.Starred):
                    m = repo.find_method(f.value.id, f.attr)
                    if m is not None and m.is_method and not m.node.decorator_list:
                        changed[0] = True
                        new = ast.Call(func=ast.Attribute(value=c.args[0], attr=f.attr, ctx=ast.Load()), args=list(c.args[1:]), keywords=list(c.keywords))
                        return _fix(ast.copy_location(new, c), c)
                return c

        T().visit(self.fn)
        return changed[0]

    # -------------------------------------------------------------- T7 local dict of handlers:  h = T[k] / T.get(k)  ->  if k == c1: h = f1 ...
    def local_tables(self) -> bool:
        """a dict display {constant: function value, ..} bound once to a local (possibly handed on through plain copies, e.g. the result of
        a helper analysed in place) and only ever looked up: `h = T[k]` / `h = T.get(k, d)` / `x = T[k](args)` become the if / elif chain
        over the keys.  With `.get` the else branch binds the default (the keys of the display are all the keys there are)."""
        fn = self.fn
        parents: Dict[ast.AST, ast.AST] = {}
        for n in ast.walk(fn):
            for ch in ast.iter_child_nodes(n):
                parents[ch] = n
        store_count: Dict[str, int] = {}
        single: Dict[str, ast.AST] = {}
        for n in ast.walk(fn):
            if isinstance(n, ast.Name) and not isinstance(n.ctx, ast.Load):
                store_count[n.id] = store_count.get(n.id, 0) + 1
            elif isinstance(n, ast.arg):
                store_count[n.arg] = store_count.get(n.arg, 0) + 2
        for n in ast.walk(fn):
            if isinstance(n, ast.Assign) and len(n.targets) == 1 and isinstance(n.targets[0], ast.Name) and store_count.get(n.targets[0].id) == 1:
                single[n.targets[0].id] = n.value
            elif isinstance(n, ast.AnnAssign) and isinstance(n.target, ast.Name) and n.value is not None and store_count.get(n.target.id) == 1:
                single[n.target.id] = n.value
        self_name = self.raw.self_name if self.raw.is_method else None

        def stable(v: ast.AST) -> bool:
            for x in ast.walk(v):
                if isinstance(x, ast.Name) and isinstance(x.ctx, ast.Load) and x.id in store_count and x.id != self_name and store_count[x.id] != 1:
                    return False
                if isinstance(x, (ast.NamedExpr, ast.Yield, ast.YieldFrom, ast.Await, ast.ListComp, ast.SetComp, ast.DictComp, ast.GeneratorExp)):
                    return False
            return True

        def function_value(v: ast.AST) -> bool:
            if isinstance(v, ast.Lambda) or self._is_function_value(v):
                return stable(v)
            root = v
            while isinstance(root, ast.Attribute):
                root = root.value
            return isinstance(root, ast.Name) and isinstance(v, (ast.Name, ast.Attribute)) and stable(v)

        def chain_of(name: str) -> Optional[Tuple[ast.Dict, Set[str]]]:
            seen: Set[str] = set()
            cur: ast.AST = ast.Name(id=name, ctx=ast.Load())
            while isinstance(cur, ast.Name) and cur.id in single and cur.id not in seen:
                seen.add(cur.id)
                cur = single[cur.id]
            if isinstance(cur, ast.Dict) and cur.keys and all(isinstance(k, ast.Constant) for k in cur.keys) and all(function_value(v) for v in cur.values):
                return cur, seen
            return None

        def only_looked_up(names: Set[str]) -> bool:
            for n in ast.walk(fn):
                if isinstance(n, ast.Name) and n.id in names and isinstance(n.ctx, ast.Load):
                    par = parents.get(n)
                    if isinstance(par, (ast.Assign, ast.AnnAssign)) and par.value is n:
                        tg = par.targets[0] if isinstance(par, ast.Assign) and len(par.targets) == 1 else getattr(par, "target", None)
                        if isinstance(tg, ast.Name) and tg.id in names:
                            continue
                        return False
                    if isinstance(par, ast.Subscript) and par.value is n and isinstance(par.ctx, ast.Load):
                        continue
                    if isinstance(par, ast.Attribute) and par.value is n and par.attr in ("get", "keys", "values", "items"):
                        continue
                    if isinstance(par, ast.Compare) and any(n is c for c in par.comparators) and all(isinstance(o, (ast.In, ast.NotIn)) for o in par.ops):
                        continue
                    return False
            return True

        KEY = (ast.Name, ast.Attribute, ast.Subscript, ast.Constant)

        def lookup(v: ast.AST):
            """(dict display, key, default, has_default) for T[k] / T.get(k[, d])"""
            tbl = key = None
            dflt: Optional[ast.AST] = None
            has = False
            if isinstance(v, ast.Subscript) and isinstance(v.ctx, ast.Load) and not isinstance(v.slice, ast.Slice) and isinstance(v.value, ast.Name):
                tbl, key = v.value.id, v.slice
            elif isinstance(v, ast.Call) and isinstance(v.func, ast.Attribute) and v.func.attr == "get" and isinstance(v.func.value, ast.Name) \
                    and len(v.args) in (1, 2) and not v.keywords:
                tbl, key, has = v.func.value.id, v.args[0], True
                dflt = v.args[1] if len(v.args) == 2 else ast.Constant(value=None)
                if not (isinstance(dflt, ast.Constant) or function_value(dflt)):
                    return None
            if tbl is None or not isinstance(key, KEY) or not stable(key):
                return None
            got = chain_of(tbl)
            if got is None or not only_looked_up(got[1]):
                return None
            return got[0], key, dflt, has

        changed = [False]
        norm = self

        def expand(st: ast.stmt, make_direct, make_tail, found) -> Optional[ast.stmt]:
            d, key, dflt, has = found
            sig = f"{getattr(st, 'lineno', 0)}:{ast.dump(key)}:{ast.dump(d)[:200]}:{type(st).__name__}"
            if sig in norm._tables_done:
                return None
            norm._tables_done.add(sig)
            chain: Optional[ast.If] = None
            tail = [make_tail(dflt, has)]
            for k, v in reversed(list(zip(d.keys, d.values))):
                test = ast.Compare(left=copy.deepcopy(key), ops=[ast.Eq()], comparators=[copy.deepcopy(k)])
                chain = ast.If(test=test, body=[make_direct(copy.deepcopy(v))], orelse=tail if chain is None else [chain])
            changed[0] = True
            return _fix(ast.copy_location(chain, st), st)

        def rewrite(stmts: List[ast.stmt]) -> List[ast.stmt]:
            out: List[ast.stmt] = []
            for st in stmts:
                new = None
                val = getattr(st, "value", None) if isinstance(st, (ast.Assign, ast.AnnAssign, ast.Return, ast.Expr)) else None
                if isinstance(st, ast.Assign) and len(st.targets) == 1 and isinstance(st.targets[0], ast.Name) and val is not None:
                    found = lookup(val)
                    if found is not None:
                        mk = lambda v_, st=st: ast.Assign(targets=copy.deepcopy(st.targets), value=v_, lineno=st.lineno)
                        new = expand(st, mk, lambda dflt, has, st=st, mk=mk: mk(copy.deepcopy(dflt)) if has else st, found)
                if new is None and isinstance(val, ast.Call) and not isinstance(st, ast.AnnAssign):
                    found = lookup(val.func)
                    if found is not None and not found[3]:
                        def with_value(v_, st=st):
                            c = copy.copy(st)
                            c.value = v_
                            return c
                        call = val
                        new = expand(st, lambda fv, call=call: with_value(ast.Call(func=fv, args=copy.deepcopy(call.args), keywords=copy.deepcopy(call.keywords))),
                                     lambda dflt, has, st=st: st, found)
                out.append(new if new is not None else st)
            return out

        _map_blocks(fn, rewrite)
        return changed[0]

    # -------------------------------------------------------------- T2 / T3 generator helpers called in expressions
    def _generator_expr(self, call: ast.Call) -> Optional[ast.AST]:
        res = None
        for ctx in self.ctxs:
            try:
                res = _resolve_generator(self.repo, ctx, call)
            except Exception:
                res = None
            if res is not None:
                break
            if not isinstance(call.func, ast.Name):
                break
        if res is None:
            return None
        callee, _recv_self = res
        if callee.qn in self.stack:
            return None
        for cand in (deep_of(self.repo, callee), callee):
            body = list(cand.node.body)
            if body and isinstance(body[0], ast.Expr) and isinstance(body[0].value, ast.Constant) and isinstance(body[0].value.value, str):
                body = body[1:]
            new: Optional[ast.AST] = None
            if body and all(isinstance(s, ast.Expr) and isinstance(s.value, ast.Yield) and s.value.value is not None for s in body):
                new = ast.Tuple(elts=[copy.deepcopy(s.value.value) for s in body], ctx=ast.Load())
            else:
                gens: List[ast.comprehension] = []
                elt = None
                while len(body) == 1:
                    s = body[0]
                    if isinstance(s, ast.For) and not s.orelse:
                        gens.append(ast.comprehension(target=copy.deepcopy(s.target), iter=copy.deepcopy(s.iter), ifs=[], is_async=0))
                        body = s.body
                    elif isinstance(s, ast.If) and not s.orelse and gens and not isinstance(s, InlineBlock):
                        gens[-1].ifs.append(copy.deepcopy(s.test))
                        body = s.body
                    elif isinstance(s, ast.Expr) and isinstance(s.value, ast.Yield) and s.value.value is not None and gens:
                        elt = copy.deepcopy(s.value.value)
                        break
                    else:
                        break
                if elt is not None:
                    new = ast.GeneratorExp(elt=elt, generators=gens)
            if new is None or any(isinstance(x, (ast.Yield, ast.YieldFrom, ast.NamedExpr, ast.Await)) for x in ast.walk(new)):
                continue
            params = list(callee.params)
            stored = {x.id for x in ast.walk(new) if isinstance(x, ast.Name) and isinstance(x.ctx, ast.Store)}
            if stored & set(params):
                continue
            n = next(_counter)
            ren = {x: f"{x}__g{n}" for x in stored}

            class R(ast.NodeTransformer):
                def visit_Name(self, nd):
                    if nd.id in ren:
                        return ast.copy_location(ast.Name(id=ren[nd.id], ctx=nd.ctx), nd)
                    return nd
            new = R().visit(new)
            m: Dict[str, ast.AST] = {}
            if callee.is_method:
                m[params[0]] = ast.Name(id=self.raw.self_name or "self", ctx=ast.Load())
                params = params[1:]
            bound: Dict[str, ast.AST] = dict(zip(params, call.args))
            for k in call.keywords:
                bound[k.arg] = k.value
            ok = True
            for p_ in params:
                v = bound.get(p_, callee.defaults.get(p_))
                if v is None:
                    ok = False
                    break
                if not (_is_pure(v) or _uses(new, p_) <= 1):
                    ok = False
                    break
                m[p_] = v
            if not ok:
                continue
            # the generator's own module constants
            self._fold_names(new, set(ren.values()) | set(m), prefer=callee)
            new = _Subst(m).visit(new)
            return _fix(ast.copy_location(new, call), call)
        return None

    def generator_calls(self) -> bool:
        norm = self
        changed = [False]

        class T(ast.NodeTransformer):
            def visit_FunctionDef(self, n):
                return n if n is not norm.fn else self.generic_visit(n)

            visit_Lambda = visit_AsyncFunctionDef = visit_ClassDef = lambda self, n: n

            def visit_For(self, n):
                it = n.iter
                self.generic_visit(n)
                if isinstance(it, ast.Call) and not n.orelse:
                    n.iter = it         # the iterable of a loop statement is opened by the generator expansion of the flattener
                return n

            def visit_Call(self, n):
                self.generic_visit(n)
                if not isinstance(n.func, (ast.Name, ast.Attribute)):
                    return n
                nm = n.func.id if isinstance(n.func, ast.Name) else n.func.attr
                if not _is_private(nm):
                    return n
                try:
                    g_ = norm._generator_expr(n)
                except (KeyError, AttributeError, TypeError, ValueError, IndexError):
                    g_ = None
                if g_ is not None:
                    changed[0] = True
                    return g_
                return n

        T().visit(self.fn)
        return changed[0]

    # -------------------------------------------------------------- all / any over displays
    def _table(self, it: ast.AST) -> Optional[List[ast.AST]]:
        d = _display(it)
        if d is not None:
            return d
        if isinstance(it, ast.Call) and isinstance(it.func, ast.Name) and it.func.id == "zip" and it.args and not it.keywords \
                and it.func.id not in self._local():
            ts = [self._table(a) for a in it.args]
            if any(t is None for t in ts):
                return None
            n = min(len(t) for t in ts)
            return [ast.Tuple(elts=[t[i] for t in ts], ctx=ast.Load()) for i in range(n)]
        if isinstance(it, ast.Name) and _stores(self.fn, it.id) == 1:
            # a temporary bound once (the result of a helper analysed in place) to a display / a NamedTuple built here
            for n in ast.walk(self.fn):
                v = None
                if isinstance(n, ast.Assign) and len(n.targets) == 1 and isinstance(n.targets[0], ast.Name) and n.targets[0].id == it.id:
                    v = n.value
                elif isinstance(n, ast.AnnAssign) and isinstance(n.target, ast.Name) and n.target.id == it.id:
                    v = n.value
                if v is not None and not isinstance(v, ast.Name):
                    got = self._table(v)
                    if got is not None and not any(_stores(self.fn, x.id) > 1 for el in got for x in ast.walk(el) if isinstance(x, ast.Name)):
                        return [copy.deepcopy(x) for x in got]
            return None
        if isinstance(it, ast.Call) and isinstance(it.func, ast.Name) and it.func.id in self.repo.classes and it.func.id not in self._local():
            ci = self.repo.classes[it.func.id]
            if getattr(ci, "record_kind", None) == "namedtuple" and not any(isinstance(a, ast.Starred) for a in it.args) and not any(k.arg is None for k in it.keywords):
                names = [f for f, _d in ci.record_fields]
                vals: Dict[str, ast.AST] = dict(zip(names, it.args))
                for k in it.keywords:
                    vals[k.arg] = k.value
                if all(nm in vals for nm in names):
                    return [vals[nm] for nm in names]
            return None
        if isinstance(it, ast.Call) and isinstance(it.func, ast.Name) and it.func.id == "enumerate" and len(it.args) == 1 and not it.keywords:
            t = self._table(it.args[0])
            return None if t is None else [ast.Tuple(elts=[ast.Constant(value=i), x], ctx=ast.Load()) for i, x in enumerate(t)]
        return None

    def quantifiers_over_displays(self) -> bool:
        norm = self
        local = self._local()
        changed = [False]

        class T(ast.NodeTransformer):
            def visit_Call(self, c):
                self.generic_visit(c)
                if not (isinstance(c.func, ast.Name) and c.func.id in ("any", "all") and c.func.id not in local and len(c.args) == 1 and not c.keywords
                        and isinstance(c.args[0], (ast.GeneratorExp, ast.ListComp)) and len(c.args[0].generators) == 1):
                    return c
                comp = c.args[0]
                gen = comp.generators[0]
                table = norm._table(gen.iter)
                if table is None or not (1 <= len(table) <= 12) or gen.is_async:
                    return c
                if all(isinstance(x, (ast.Constant, ast.Name, ast.Attribute)) for x in table):
                    return c        # stable tables are the flattener's business
                where = [comp.elt] + list(gen.ifs)
                terms: List[ast.expr] = []
                for elem in table:
                    m: Dict[str, ast.AST] = {}
                    if not _bind_target(gen.target, elem, m) or not _can_substitute(m, where):
                        return c
                    conds = [_subst(x, m) for x in gen.ifs]
                    elt = _subst(comp.elt, m)
                    if c.func.id == "any":
                        terms.append(ast.BoolOp(op=ast.And(), values=conds + [elt]) if conds else elt)
                    else:
                        neg = [ast.UnaryOp(op=ast.Not(), operand=x) for x in conds]
                        terms.append(ast.BoolOp(op=ast.Or(), values=neg + [elt]) if neg else elt)
                new: ast.expr = terms[0] if len(terms) == 1 else ast.BoolOp(op=ast.Or() if c.func.id == "any" else ast.And(), values=terms)
                if not all(isinstance(t, ast.Compare) for t in terms):
                    new = ast.Call(func=ast.Name(id="bool", ctx=ast.Load()), args=[new], keywords=[])
                changed[0] = True
                return _fix(ast.copy_location(new, c), c)

        T().visit(self.fn)
        return changed[0]

    # -------------------------------------------------------------- T4a helpers inside comprehensions
    def _expr_of_call(self, call: ast.Call) -> Optional[ast.AST]:
        """the expression a private helper call computes (None: not a helper / not reducible to one expression)"""
        fl = Flattener(self.repo, self.raw, MAX_DEPTH, self.also)
        tgt = None
        ctx_used = None
        for ctx in self.ctxs:
            try:
                tgt = fl._target(ctx, call, self.stack)
            except Exception:
                tgt = None
            if tgt is not None:
                ctx_used = ctx
                break
            if not isinstance(call.func, ast.Name):
                break
        if tgt is None:
            return None
        callee, _r = tgt
        recv = call.func.value if isinstance(call.func, ast.Attribute) else None
        try:
            stmts, result = fl._instantiate(callee, copy.deepcopy(call), copy.deepcopy(recv) if recv is not None else None, self.stack, 1)
        except NotInlinable:
            return None
        # the helper's own module constants
        bindings: List[Tuple[str, ast.AST]] = []
        for st in stmts:
            if isinstance(st, ast.Assign) and len(st.targets) == 1 and isinstance(st.targets[0], ast.Name):
                bindings.append((st.targets[0].id, st.value))
            elif isinstance(st, ast.AnnAssign) and isinstance(st.target, ast.Name) and st.value is not None:
                bindings.append((st.target.id, st.value))
            elif isinstance(st, ast.Expr) and isinstance(st.value, ast.Constant):
                continue
            else:
                return None
        names = [b[0] for b in bindings]
        if len(set(names)) != len(names) or not isinstance(result, ast.Name) or result.id not in names:
            return None
        nparams = len([p for p in callee.params]) - (1 if callee.is_method and isinstance(recv, ast.Name) and recv.id == (self.raw.self_name or "self") else 0)
        local = self._local() | set(names)
        for i, (nm, val) in enumerate(bindings):
            if i >= nparams and callee.mod is not self.raw.mod:
                self._fold_names(val, local, prefer=callee)
        if any(isinstance(x, (ast.Yield, ast.YieldFrom, ast.Await, ast.NamedExpr)) for _n, v in bindings for x in ast.walk(v)):
            return None
        # put the temporaries back in place, last first
        expr: ast.AST = copy.deepcopy(result)
        rest = [(n_, copy.deepcopy(v)) for n_, v in bindings]
        while rest:
            nm, val = rest.pop()
            later = [expr]
            u = _uses(later, nm)
            if u == 0:
                if not _is_pure(val) and not isinstance(val, ast.Constant) and not self._is_function_value(val):
                    return None
                continue
            if u > 1 and not (_is_pure(val) or self._is_function_value(val)):
                return None
            if any(nm in _stored_names(x) for x in later):
                return None
            expr = _Subst({nm: val}).visit(expr)
        return _fix(ast.copy_location(expr, call), call)

    def _is_function_value(self, v: ast.AST) -> bool:
        from ..inline import FunctionValues
        try:
            return FunctionValues(self.repo, self.raw, self._local()).is_value(v)
        except Exception:
            return False

    def helpers_in_comprehensions(self) -> bool:
        norm = self
        changed = [False]

        class Inner(ast.NodeTransformer):
            def visit_Lambda(self, n):
                return n

            def visit_Call(self, c):
                self.generic_visit(c)
                if not isinstance(c.func, (ast.Name, ast.Attribute)):
                    return c
                nm = c.func.id if isinstance(c.func, ast.Name) else c.func.attr
                if not (_is_private(nm) or (norm.also and nm in norm.also)):
                    return c
                try:
                    got = norm._expr_of_call(c)
                except (KeyError, AttributeError, TypeError, ValueError, IndexError, RecursionError):
                    got = None
                if got is not None:
                    changed[0] = True
                    return got
                return c

        class Outer(ast.NodeTransformer):
            def visit_FunctionDef(self, n):
                return n if n is not norm.fn else self.generic_visit(n)

            visit_Lambda = visit_AsyncFunctionDef = visit_ClassDef = lambda self, n: n

            def _comp(self, n):
                return Inner().visit(n)

            visit_ListComp = visit_SetComp = visit_GeneratorExp = visit_DictComp = _comp

        Outer().visit(self.fn)
        return changed[0]

    # -------------------------------------------------------------- "template %s" % value  ->  f"template {value!s}"
    def percent_templates(self) -> bool:
        """a literal template with `%s` conversions only (and `%%`), applied to a tuple display or to one value that cannot be a tuple
        (a call of str / join / serialize .., a string literal, an f-string), is the f-string with `!s` conversions"""
        local = self._local()
        changed = [False]
        STR_METHODS = ("join", "format", "lower", "upper", "strip", "serialize", "replace", "title")
        STR_FUNCS = ("str", "repr", "len", "int", "float")

        def not_a_tuple(e: ast.AST) -> bool:
            if isinstance(e, ast.JoinedStr) or (isinstance(e, ast.Constant) and not isinstance(e.value, tuple)):
                return True
            if isinstance(e, ast.Call):
                if isinstance(e.func, ast.Attribute) and e.func.attr in STR_METHODS:
                    return True
                return isinstance(e.func, ast.Name) and e.func.id in STR_FUNCS and e.func.id not in local
            return False

        def surely_str(e: ast.AST) -> bool:
            if isinstance(e, ast.JoinedStr) or (isinstance(e, ast.Constant) and isinstance(e.value, str)):
                return True
            if isinstance(e, ast.Call):
                if isinstance(e.func, ast.Attribute) and e.func.attr in ("join", "format", "lower", "upper", "strip", "title"):
                    return True
                return isinstance(e.func, ast.Name) and e.func.id in ("str", "repr") and e.func.id not in local
            return False

        class T(ast.NodeTransformer):
            def visit_BinOp(self, n):
                self.generic_visit(n)
                if not (isinstance(n.op, ast.Mod) and isinstance(n.left, ast.Constant) and isinstance(n.left.value, str)):
                    return n
                tpl = n.left.value
                parts: List[str] = [""]
                i = 0
                while i < len(tpl):
                    if tpl[i] == "%":
                        nxt = tpl[i + 1] if i + 1 < len(tpl) else ""
                        if nxt == "%":
                            parts[-1] += "%"
                        elif nxt == "s":
                            parts.append("")
                        else:
                            return n
                        i += 2
                    else:
                        parts[-1] += tpl[i]
                        i += 1
                if isinstance(n.right, ast.Tuple) and not any(isinstance(x, ast.Starred) for x in n.right.elts):
                    args = list(n.right.elts)
                elif not_a_tuple(n.right):
                    args = [n.right]
                else:
                    return n
                if len(args) != len(parts) - 1:
                    return n
                vals: List[ast.AST] = []
                for k, lit in enumerate(parts):
                    if lit:
                        vals.append(ast.Constant(value=lit))
                    if k < len(args):
                        # str(x) of a value that is a string already is the value: no conversion needed then
                        vals.append(ast.FormattedValue(value=args[k], conversion=-1 if surely_str(args[k]) else 115, format_spec=None))
                changed[0] = True
                return _fix(ast.copy_location(ast.JoinedStr(values=vals), n), n)

        T().visit(self.fn)
        return changed[0]

    # -------------------------------------------------------------- generator helpers handed on as a stream; last = X.pop(); X.append(E(last))
    def _is_generator_call(self, v: ast.AST) -> bool:
        if not isinstance(v, ast.Call):
            return False
        for ctx in self.ctxs:
            try:
                res = _resolve_generator(self.repo, ctx, v)
            except Exception:
                res = None
            if res is not None:
                return res[0].qn not in self.stack
            if not isinstance(v.func, ast.Name):
                break
        return False

    def generator_streams(self) -> bool:
        """`s = self._gen(a)` (a private generator helper; s bound once, read once, nothing it reads is rebound) is written where it is
        read -- generators are lazy, the body runs at the use; `X.extend(self._gen(a))` / `X += self._gen(a)` is
        `for v in self._gen(a): X.append(v)` (the loop is then opened by the flattener's generator expansion)"""
        fn = self.fn
        changed = False
        for _ in range(8):
            hit = None
            for owner in ast.walk(fn):
                for fld in ("body", "orelse", "finalbody"):
                    blk = getattr(owner, fld, None)
                    if not (isinstance(blk, list) and blk and isinstance(blk[0], ast.stmt)):
                        continue
                    for st in blk:
                        tgt = None
                        if isinstance(st, ast.Assign) and len(st.targets) == 1 and isinstance(st.targets[0], ast.Name):
                            tgt = st.targets[0].id
                        elif isinstance(st, ast.AnnAssign) and isinstance(st.target, ast.Name) and st.value is not None:
                            tgt = st.target.id
                        if tgt is None or not self._is_generator_call(st.value):
                            continue
                        if _stores(fn, tgt) == 1 and _uses(fn, tgt) == 1 and not _uses(st.value, tgt) and \
                                not any(_stores(fn, x.id) > 1 for x in ast.walk(st.value) if isinstance(x, ast.Name) and isinstance(x.ctx, ast.Load)):
                            hit = (blk, st, tgt)
                            break
                    if hit:
                        break
                if hit:
                    break
            if not hit:
                break
            blk, st, nm = hit
            blk.remove(st)
            if not blk:
                blk.append(ast.copy_location(ast.Pass(), st))
            for n in ast.walk(fn):
                for f_, v in ast.iter_fields(n):
                    if isinstance(v, ast.Name) and v.id == nm and isinstance(v.ctx, ast.Load):
                        setattr(n, f_, st.value)
                    elif isinstance(v, list):
                        for i, x in enumerate(v):
                            if isinstance(x, ast.Name) and x.id == nm and isinstance(x.ctx, ast.Load):
                                v[i] = st.value
            changed = True
        norm = self
        did = [False]

        def rewrite(stmts: List[ast.stmt]) -> List[ast.stmt]:
            out: List[ast.stmt] = []
            for s_ in stmts:
                recv = gen = None
                if isinstance(s_, ast.Expr) and isinstance(s_.value, ast.Call) and isinstance(s_.value.func, ast.Attribute) and s_.value.func.attr == "extend" \
                        and isinstance(s_.value.func.value, ast.Name) and len(s_.value.args) == 1 and not s_.value.keywords:
                    recv, gen = s_.value.func.value.id, s_.value.args[0]
                elif isinstance(s_, ast.AugAssign) and isinstance(s_.op, ast.Add) and isinstance(s_.target, ast.Name):
                    recv, gen = s_.target.id, s_.value
                if recv is not None and norm._is_generator_call(gen) and not _uses(gen, recv):
                    var = f"line__e{next(_counter)}"
                    body = [ast.Expr(value=ast.Call(func=ast.Attribute(value=ast.Name(id=recv, ctx=ast.Load()), attr="append", ctx=ast.Load()),
                                                    args=[ast.Name(id=var, ctx=ast.Load())], keywords=[]))]
                    loop = ast.For(target=ast.Name(id=var, ctx=ast.Store()), iter=gen, body=body, orelse=[], lineno=s_.lineno)
                    out.append(_fix(ast.copy_location(loop, s_), s_))
                    did[0] = True
                else:
                    out.append(s_)
            return out

        _map_blocks(fn, rewrite)
        return changed or did[0]

    def pop_then_append(self) -> bool:
        """`last = X.pop()` directly followed by `X.append(E(last))`, `last` read nowhere else  ->  `X[-1] = E(X[-1])`
        (both forms raise IndexError on an empty list)"""
        fn = self.fn
        did = [False]

        def rewrite(stmts: List[ast.stmt]) -> List[ast.stmt]:
            out: List[ast.stmt] = []
            i = 0
            while i < len(stmts):
                a = stmts[i]
                b = stmts[i + 1] if i + 1 < len(stmts) else None
                ok = False
                if isinstance(a, ast.Assign) and len(a.targets) == 1 and isinstance(a.targets[0], ast.Name) and isinstance(a.value, ast.Call) \
                        and isinstance(a.value.func, ast.Attribute) and a.value.func.attr == "pop" and not a.value.args and not a.value.keywords \
                        and isinstance(a.value.func.value, ast.Name) and isinstance(b, ast.Expr) and isinstance(b.value, ast.Call) \
                        and isinstance(b.value.func, ast.Attribute) and b.value.func.attr == "append" and isinstance(b.value.func.value, ast.Name) \
                        and b.value.func.value.id == a.value.func.value.id and len(b.value.args) == 1 and not b.value.keywords:
                    nm, lst = a.targets[0].id, a.value.func.value.id
                    if nm != lst and _stores(fn, nm) == 1 and _uses(fn, nm) == _uses(b.value.args[0], nm) >= 1 and not _uses(b.value.args[0], lst):
                        last = lambda ctx: ast.Subscript(value=ast.Name(id=lst, ctx=ast.Load()), slice=ast.UnaryOp(op=ast.USub(), operand=ast.Constant(value=1)), ctx=ctx)
                        new = ast.Assign(targets=[last(ast.Store())], value=_subst(b.value.args[0], {nm: last(ast.Load())}), lineno=a.lineno)
                        out.append(_fix(ast.copy_location(new, a), a))
                        did[0] = True
                        ok = True
                        i += 2
                if not ok:
                    out.append(a)
                    i += 1
            return out

        _map_blocks(fn, rewrite)
        return did[0]

    # -------------------------------------------------------------- lazy streams: g = (E for ..) used once; zip of maps over one sequence
    def lazy_streams(self) -> bool:
        fn = self.fn
        changed = False
        # a generator expression bound to a name that is read exactly once is written where it is read
        for _ in range(8):
            hit = None
            for blk_owner in ast.walk(fn):
                for fld in ("body", "orelse", "finalbody"):
                    blk = getattr(blk_owner, fld, None)
                    if not (isinstance(blk, list) and blk and isinstance(blk[0], ast.stmt)):
                        continue
                    for st in blk:
                        if isinstance(st, ast.Assign) and len(st.targets) == 1 and isinstance(st.targets[0], ast.Name) and isinstance(st.value, ast.GeneratorExp):
                            nm = st.targets[0].id
                            if _stores(fn, nm) == 1 and _uses(fn, nm) == 1 and not _uses(st.value, nm) \
                                    and not any(_stores(fn, x.id) > 1 for x in ast.walk(st.value) if isinstance(x, ast.Name) and isinstance(x.ctx, ast.Load)):
                                hit = (blk, st, nm)
                                break
                    if hit:
                        break
                if hit:
                    break
            if not hit:
                break
            blk, st, nm = hit
            blk.remove(st)
            if not blk:
                blk.append(ast.copy_location(ast.Pass(), st))
            for n in ast.walk(fn):
                for f_, v in ast.iter_fields(n):
                    if isinstance(v, ast.Name) and v.id == nm and isinstance(v.ctx, ast.Load):
                        setattr(n, f_, st.value)
                    elif isinstance(v, list):
                        for i, x in enumerate(v):
                            if isinstance(x, ast.Name) and x.id == nm and isinstance(x.ctx, ast.Load):
                                v[i] = st.value
            changed = True
        # zip((E1 for a in X), (E2 for b in X), X)  over ONE sequence X (a name / attribute path)  ->  ((E1, E2', x) for x in X)
        local = self._local()
        did = [False]

        class T(ast.NodeTransformer):
            def visit_Call(self, c):
                self.generic_visit(c)
                if not (isinstance(c.func, ast.Name) and c.func.id == "zip" and "zip" not in local and len(c.args) >= 2 and not c.keywords):
                    return c
                comps = [a for a in c.args if isinstance(a, (ast.GeneratorExp, ast.ListComp))]
                if not comps:
                    return c
                base = None
                for a in c.args:
                    if isinstance(a, (ast.GeneratorExp, ast.ListComp)):
                        if len(a.generators) != 1 or a.generators[0].ifs or a.generators[0].is_async or not isinstance(a.generators[0].target, ast.Name):
                            return c
                        it = a.generators[0].iter
                    else:
                        it = a
                    if not _is_pure(it) or isinstance(it, ast.Constant):
                        return c
                    if base is None:
                        base = it
                    elif ast.dump(base) != ast.dump(it):
                        return c
                root = base
                while isinstance(root, ast.Attribute):
                    root = root.value
                if not isinstance(root, ast.Name) or root.id not in local:
                    return c        # a sequence the function received / built (iterating it again gives the same elements)
                k = next(_counter)
                var = f"item__z{k}"
                elts = []
                for a in c.args:
                    if isinstance(a, (ast.GeneratorExp, ast.ListComp)):
                        elts.append(_subst(a.elt, {a.generators[0].target.id: ast.Name(id=var, ctx=ast.Load())}))
                    else:
                        elts.append(ast.Name(id=var, ctx=ast.Load()))
                new = ast.GeneratorExp(elt=ast.Tuple(elts=elts, ctx=ast.Load()),
                                       generators=[ast.comprehension(target=ast.Name(id=var, ctx=ast.Store()), iter=copy.deepcopy(base), ifs=[], is_async=0)])
                did[0] = True
                return _fix(ast.copy_location(new, c), c)

        T().visit(fn)
        return changed or did[0]

    # -------------------------------------------------------------- T4b comprehension over a comprehension
    def fuse_comprehensions(self) -> bool:
        changed = [False]

        class T(ast.NodeTransformer):
            def _comp(self, n):
                self.generic_visit(n)
                again = True
                while again:
                    again = False
                    for i, gen in enumerate(n.generators):
                        inner = gen.iter
                        if not (isinstance(inner, (ast.GeneratorExp, ast.ListComp)) and not gen.is_async and not any(g.is_async for g in inner.generators)):
                            continue
                        if any(isinstance(x, (ast.NamedExpr, ast.Yield, ast.YieldFrom, ast.Await)) for x in ast.walk(inner)):
                            continue
                        later: List[ast.AST] = list(gen.ifs)
                        for g2 in n.generators[i + 1:]:
                            later += [g2.iter] + list(g2.ifs)
                        later += [n.key, n.value] if isinstance(n, ast.DictComp) else [n.elt]
                        inner_vars = {x.id for g2 in inner.generators for x in ast.walk(g2.target) if isinstance(x, ast.Name)}
                        outer_vars = {x.id for g2 in n.generators for x in ast.walk(g2.target) if isinstance(x, ast.Name)}
                        if inner_vars & outer_vars:
                            continue
                        m: Dict[str, ast.AST] = {}
                        new_gens = [copy.deepcopy(g2) for g2 in inner.generators]
                        if _bind_target(gen.target, inner.elt, m) and _can_substitute(m, later):
                            sub = _Subst(m)
                            new_gens[-1].ifs += [sub.visit(copy.deepcopy(x)) for x in gen.ifs]
                            for g2 in n.generators[i + 1:]:
                                g2.iter = sub.visit(g2.iter)
                                g2.ifs = [sub.visit(x) for x in g2.ifs]
                            if isinstance(n, ast.DictComp):
                                n.key, n.value = sub.visit(n.key), sub.visit(n.value)
                            else:
                                n.elt = sub.visit(n.elt)
                            n.generators[i:i + 1] = new_gens
                        else:
                            # a one-element iteration keeps the binding
                            bind = ast.comprehension(target=gen.target, iter=ast.Tuple(elts=[copy.deepcopy(inner.elt)], ctx=ast.Load()), ifs=list(gen.ifs), is_async=0)
                            n.generators[i:i + 1] = new_gens + [bind]
                        changed[0] = True
                        again = True
                        break
                return n

            visit_ListComp = visit_SetComp = visit_GeneratorExp = visit_DictComp = _comp

        T().visit(self.fn)
        return changed[0]

    # -------------------------------------------------------------- T4c dict(..)
    def dict_forms(self) -> bool:
        local = self._local()
        changed = [False]

        def single(comp):
            return isinstance(comp, (ast.GeneratorExp, ast.ListComp)) and len(comp.generators) == 1 and not comp.generators[0].ifs \
                and not comp.generators[0].is_async

        class T(ast.NodeTransformer):
            def visit_Call(self, c):
                self.generic_visit(c)
                if not (isinstance(c.func, ast.Name) and c.func.id == "dict" and "dict" not in local and len(c.args) == 1 and not c.keywords):
                    return c
                a = c.args[0]
                new = None
                if isinstance(a, (ast.GeneratorExp, ast.ListComp)) and isinstance(a.elt, ast.Tuple) and len(a.elt.elts) == 2 \
                        and not any(isinstance(x, ast.Starred) for x in a.elt.elts):
                    new = ast.DictComp(key=a.elt.elts[0], value=a.elt.elts[1], generators=a.generators)
                elif isinstance(a, ast.Call) and isinstance(a.func, ast.Name) and a.func.id == "zip" and "zip" not in local and len(a.args) == 2 and not a.keywords:
                    k, v = a.args
                    if single(k) or single(v):
                        n = next(_counter)
                        kt: ast.AST = ast.Name(id=f"key__z{n}", ctx=ast.Store())
                        vt: ast.AST = ast.Name(id=f"value__z{n}", ctx=ast.Store())
                        ke: ast.AST = ast.Name(id=f"key__z{n}", ctx=ast.Load())
                        ve: ast.AST = ast.Name(id=f"value__z{n}", ctx=ast.Load())
                        ki, vi = k, v
                        if single(k):
                            kt, ke, ki = k.generators[0].target, k.elt, k.generators[0].iter
                        if single(v):
                            vt, ve, vi = v.generators[0].target, v.elt, v.generators[0].iter
                        kn = {x.id for x in ast.walk(kt) if isinstance(x, ast.Name)}
                        vn = {x.id for x in ast.walk(vt) if isinstance(x, ast.Name)}
                        if not (kn & vn):
                            z = ast.Call(func=ast.Name(id="zip", ctx=ast.Load()), args=[ki, vi], keywords=[])
                            # zip(D.keys(), D.values()) / zip(D, D.values()) of one dict D is D.items()
                            kd = ki.func.value if isinstance(ki, ast.Call) and isinstance(ki.func, ast.Attribute) and ki.func.attr == "keys" and not ki.args else ki
                            vd = vi.func.value if isinstance(vi, ast.Call) and isinstance(vi.func, ast.Attribute) and vi.func.attr == "values" and not vi.args else None
                            if vd is not None and _is_pure(kd) and not isinstance(kd, ast.Constant) and ast.dump(kd) == ast.dump(vd):
                                z = ast.Call(func=ast.Attribute(value=copy.deepcopy(vd), attr="items", ctx=ast.Load()), args=[], keywords=[])
                            new = ast.DictComp(key=ke, value=ve, generators=[
                                ast.comprehension(target=ast.Tuple(elts=[kt, vt], ctx=ast.Store()), iter=z, ifs=[], is_async=0)])
                if new is None:
                    return c
                changed[0] = True
                return _fix(ast.copy_location(new, c), c)

        T().visit(self.fn)
        return changed[0]

    # -------------------------------------------------------------- T5 list building as loops with append
    @staticmethod
    def _needs_loops(e: ast.AST) -> bool:
        """a list expression whose elements the string-shape engine cannot tell apart: a starred comprehension, several generators, an
        iteration over a display"""
        for x in ast.walk(e):
            if isinstance(x, ast.Starred) and isinstance(x.value, (ast.GeneratorExp, ast.ListComp)):
                return True
            if isinstance(x, (ast.GeneratorExp, ast.ListComp)) and (len(x.generators) > 1 or any(_display(g.iter) is not None for g in x.generators)):
                return True
        return False

    def _has_starred_generator(self, e: ast.AST) -> bool:
        """[a, *self._gen(x)]: a display that spreads the stream of a private generator helper (written as X.extend(..), then opened)"""
        return any(isinstance(x, ast.Starred) and self._is_generator_call(x.value) for x in ast.walk(e))

    def _is_list_expr(self, v: ast.AST) -> bool:
        if isinstance(v, (ast.List, ast.ListComp)):
            return True
        if isinstance(v, ast.BinOp) and isinstance(v.op, ast.Add):
            return self._is_list_expr(v.left) and self._is_list_expr(v.right)
        return isinstance(v, ast.Call) and isinstance(v.func, ast.Name) and v.func.id == "list" and len(v.args) == 1 and not v.keywords \
            and "list" not in self._local()

    def _emit(self, e: ast.AST, into: str, at: ast.AST) -> Optional[List[ast.stmt]]:
        """statements that append the elements of the list expression e to the list `into`, in order"""
        tgt = lambda: ast.Name(id=into, ctx=ast.Load())
        call = lambda meth, arg: ast.Expr(value=ast.Call(func=ast.Attribute(value=tgt(), attr=meth, ctx=ast.Load()), args=[arg], keywords=[]))
        if isinstance(e, (ast.List, ast.Tuple)):
            out: List[ast.stmt] = []
            for x in e.elts:
                if isinstance(x, ast.Starred):
                    sub = self._emit(x.value, into, at)
                    if sub is None:
                        return None
                    out += sub
                else:
                    out.append(call("append", x))
            return out
        if isinstance(e, (ast.GeneratorExp, ast.ListComp)):
            if any(g.is_async for g in e.generators) or any(isinstance(x, (ast.NamedExpr, ast.Yield, ast.YieldFrom, ast.Await)) for x in ast.walk(e)):
                return None
            body: List[ast.stmt] = [call("append", e.elt)]
            for gen in reversed(e.generators):
                for c in reversed(gen.ifs):
                    body = [ast.If(test=c, body=body, orelse=[])]
                body = [ast.For(target=gen.target, iter=gen.iter, body=body, orelse=[], lineno=getattr(at, "lineno", 1))]
            return body
        if isinstance(e, ast.BinOp) and isinstance(e.op, ast.Add):
            a, b = self._emit(e.left, into, at), self._emit(e.right, into, at)
            return None if a is None or b is None else a + b
        if isinstance(e, ast.Call) and isinstance(e.func, ast.Name) and e.func.id in ("list", "tuple") and len(e.args) == 1 and not e.keywords \
                and e.func.id not in self._local():
            return self._emit(e.args[0], into, at)
        if isinstance(e, (ast.Name, ast.Attribute, ast.Subscript, ast.Call)):
            return [call("extend", e)]
        return None

    def list_building(self) -> bool:
        norm = self
        changed = [False]
        # statements that are executed before a statement whenever it is: the earlier statements of its block and of the enclosing blocks
        earlier: Dict[int, List[ast.stmt]] = {}

        def index(stmts: List[ast.stmt], inherited: List[ast.stmt]):
            for i, st in enumerate(stmts):
                mine = inherited + stmts[:i]
                earlier[id(st)] = mine
                for fld in ("body", "orelse", "finalbody"):
                    sub = getattr(st, fld, None)
                    if isinstance(sub, list) and sub and isinstance(sub[0], ast.stmt) and not isinstance(st, SCOPES):
                        index(sub, mine)
                for h in getattr(st, "handlers", []) or []:
                    index(h.body, mine)

        index(self.fn.body, [])

        def rewrite(stmts: List[ast.stmt]) -> List[ast.stmt]:
            out: List[ast.stmt] = []
            for s in stmts:
                new = None
                try:
                    new = norm._list_stmt(s, earlier.get(id(s), []))
                except (KeyError, AttributeError, TypeError, ValueError, IndexError):
                    new = None
                if new is None:
                    out.append(s)
                else:
                    changed[0] = True
                    out.extend(_fix(new, s))
            return out

        _map_blocks(self.fn, rewrite)
        return changed[0]

    def _resolve_display(self, e: ast.AST, before: List[ast.stmt], depth: int = 0) -> Optional[List[ast.AST]]:
        """the display a name stands for: bound once in the whole function, by a statement that is always executed before the use"""
        d = _display(e)
        if d is not None or not isinstance(e, ast.Name) or depth > 4:
            return d
        if _stores(self.fn, e.id) != 1:
            return None
        for i in range(len(before) - 1, -1, -1):
            st = before[i]
            v = None
            if isinstance(st, ast.Assign) and len(st.targets) == 1 and isinstance(st.targets[0], ast.Name) and st.targets[0].id == e.id:
                v = st.value
            elif isinstance(st, ast.AnnAssign) and isinstance(st.target, ast.Name) and st.target.id == e.id:
                v = st.value
            if v is not None:
                got = self._resolve_display(v, before[:i], depth + 1)
                if got is None:
                    return None
                # the elements are evaluated where the display is written: they may be used in place only when nothing they read is
                # rebound (temporaries of the inliner, comprehension variables and parameters that are never assigned)
                names = {x.id for el in got for x in ast.walk(el) if isinstance(x, ast.Name)}
                if any(_stores(self.fn, nm) > 1 for nm in names):
                    return None
                return got
        return None

    def _rewrapped(self, disp: ast.List, before: List[ast.stmt]):
        """[E(first), *middle, E'(last)] over names bound by `first, *middle, last = SRC` (either end optional): (SRC, E, first, E', last)"""
        elts = list(disp.elts)
        stars = [i for i, x in enumerate(elts) if isinstance(x, ast.Starred)]
        if len(stars) != 1 or not isinstance(elts[stars[0]].value, ast.Name) or len(elts) not in (2, 3):
            return None
        mid = elts[stars[0]].value.id
        first_expr = elts[0] if stars[0] == 1 else None
        last_expr = elts[-1] if stars[0] == len(elts) - 2 else None
        if (first_expr is None and last_expr is None) or (len(elts) == 3 and stars[0] != 1):
            return None
        for i in range(len(before) - 1, -1, -1):
            st = before[i]
            if not (isinstance(st, ast.Assign) and len(st.targets) == 1 and isinstance(st.targets[0], (ast.Tuple, ast.List))):
                continue
            tg = st.targets[0].elts
            tstars = [j for j, x in enumerate(tg) if isinstance(x, ast.Starred)]
            if len(tstars) != 1 or not isinstance(tg[tstars[0]].value, ast.Name) or tg[tstars[0]].value.id != mid:
                continue
            if len(tg) != len(elts) or tstars[0] != stars[0] or not all(isinstance(x, ast.Name) for j, x in enumerate(tg) if j != tstars[0]):
                return None
            first_name = tg[0].id if first_expr is not None else None
            last_name = tg[-1].id if last_expr is not None else None
            names = [n_ for n_ in (first_name, mid, last_name) if n_]
            if any(_stores(self.fn, n_) != 1 for n_ in names) or _uses(self.fn, mid) != 1:
                return None
            for expr, nm in ((first_expr, first_name), (last_expr, last_name)):
                if expr is not None and (_uses(self.fn, nm) != _uses(expr, nm) or any(_uses(expr, o) for o in names if o != nm)):
                    return None
            if isinstance(st.value, ast.Constant):
                return None
            if not _is_pure(st.value):
                # the source is a list built in place: it is bound to a name of its own first (the unpacked names are read nowhere but in
                # the display, so the unpacking statement itself becomes that binding)
                if not self._is_list_expr(st.value):
                    return None
                tmp = f"__src__l{next(_counter)}"
                st.targets = [ast.copy_location(ast.Name(id=tmp, ctx=ast.Store()), st.targets[0])]
                return ast.copy_location(ast.Name(id=tmp, ctx=ast.Load()), st.value), first_expr, first_name, last_expr, last_name
            return st.value, first_expr, first_name, last_expr, last_name
        return None

    def _resolve_temp(self, e: ast.AST, before: List[ast.stmt], depth: int = 0) -> ast.AST:
        """a name bound once (in the whole function) by a statement that is always executed before -> the bound expression"""
        if not isinstance(e, ast.Name) or depth > 6 or _stores(self.fn, e.id) != 1:
            return e
        for i in range(len(before) - 1, -1, -1):
            st = before[i]
            v = None
            if isinstance(st, ast.Assign) and len(st.targets) == 1 and isinstance(st.targets[0], ast.Name) and st.targets[0].id == e.id:
                v = st.value
            elif isinstance(st, ast.AnnAssign) and isinstance(st.target, ast.Name) and st.target.id == e.id and st.value is not None:
                v = st.value
            if v is not None:
                return self._resolve_temp(v, before[:i], depth + 1) if isinstance(v, ast.Name) else v
        return e

    def _only_fresh_lists(self, name: str, but: ast.stmt) -> bool:
        """every other binding of the name is a list built in place (so rebuilding it by concatenation and extending it are the same)"""
        for n in ast.walk(self.fn):
            if n is but:
                continue
            if isinstance(n, ast.Assign) and any(name in {x.id for x in ast.walk(t) if isinstance(x, ast.Name) and not isinstance(x.ctx, ast.Load)} for t in n.targets):
                if not (len(n.targets) == 1 and isinstance(n.targets[0], ast.Name) and self._is_list_expr(n.value)):
                    return False
            elif isinstance(n, (ast.AnnAssign, ast.AugAssign, ast.For, ast.comprehension, ast.NamedExpr)) and \
                    name in {x.id for x in ast.walk(n.target) if isinstance(x, ast.Name) and not isinstance(x.ctx, ast.Load)}:
                if not (isinstance(n, ast.AnnAssign) and n.value is not None and self._is_list_expr(n.value)) and not isinstance(n, ast.AugAssign):
                    return False
            elif isinstance(n, ast.arg) and n.arg == name:
                return False
        return True

    def _list_stmt(self, s: ast.stmt, before: Optional[List[ast.stmt]] = None) -> Optional[List[ast.stmt]]:
        # X = <list expression>   /   return <list expression>
        if isinstance(s, (ast.Assign, ast.AnnAssign, ast.Return)) and getattr(s, "value", None) is not None and self._is_list_expr(s.value) \
                and (self._needs_loops(s.value) or self._has_starred_generator(s.value)):
            if isinstance(s, ast.Assign):
                if not (len(s.targets) == 1 and isinstance(s.targets[0], ast.Name)) or _uses(s.value, s.targets[0].id):
                    return None
                name = s.targets[0].id
            elif isinstance(s, ast.AnnAssign):
                if not isinstance(s.target, ast.Name) or _uses(s.value, s.target.id):
                    return None
                name = s.target.id
            else:
                name = f"__list__l{next(_counter)}"
            body = self._emit(s.value, name, s)
            if body is None:
                return None
            # leading plain elements stay in the display that creates the list
            lead: List[ast.AST] = []
            while body and isinstance(body[0], ast.Expr) and isinstance(body[0].value, ast.Call) and body[0].value.func.attr == "append":
                lead.append(body.pop(0).value.args[0])
            init = ast.Assign(targets=[ast.Name(id=name, ctx=ast.Store())], value=ast.List(elts=lead, ctx=ast.Load()), lineno=s.lineno)
            tail: List[ast.stmt] = []
            if isinstance(s, ast.Return):
                tail = [ast.Return(value=ast.Name(id=name, ctx=ast.Load()))]
            return [init] + body + tail
        # *head, last = SRC ... [*head, E(last)]   (also first, *rest / first, *middle, last)  ->  R = list(SRC); R[-1] = E(R[-1])
        if isinstance(s, (ast.Assign, ast.Return)) and isinstance(getattr(s, "value", None), ast.List) and \
                (isinstance(s, ast.Return) or (len(s.targets) == 1 and isinstance(s.targets[0], ast.Name))):
            got = self._rewrapped(s.value, before or [])
            if got is not None:
                src, first_expr, first_name, last_expr, last_name = got
                name = s.targets[0].id if isinstance(s, ast.Assign) else f"__list__l{next(_counter)}"
                load = lambda: ast.Name(id=name, ctx=ast.Load())
                elem = lambda i: ast.Subscript(value=load(), slice=ast.Constant(value=i) if i >= 0 else ast.UnaryOp(op=ast.USub(), operand=ast.Constant(value=-i)), ctx=ast.Load())
                out: List[ast.stmt] = [ast.Assign(targets=[ast.Name(id=name, ctx=ast.Store())],
                                                  value=ast.Call(func=ast.Name(id="list", ctx=ast.Load()), args=[copy.deepcopy(src)], keywords=[]), lineno=s.lineno)]
                for expr, nm, i in ((first_expr, first_name, 0), (last_expr, last_name, -1)):
                    if expr is not None:
                        tgt = elem(i)
                        tgt.ctx = ast.Store()
                        out.append(ast.Assign(targets=[tgt], value=_subst(expr, {nm: elem(i)}), lineno=s.lineno))
                if isinstance(s, ast.Return):
                    out.append(ast.Return(value=load()))
                return out
        # X = X + [A, B]  (possibly through temporaries of a helper analysed in place: t = X; r = t + [A, B]; X = r) when X only ever holds
        # lists built here  ->  X.append(A); X.append(B)
        if isinstance(s, ast.Assign) and len(s.targets) == 1 and isinstance(s.targets[0], ast.Name):
            name = s.targets[0].id
            v = self._resolve_temp(s.value, before or [])
            if isinstance(v, ast.BinOp) and isinstance(v.op, ast.Add) and isinstance(v.right, (ast.List, ast.ListComp)):
                left = self._resolve_temp(v.left, before or [])
                if isinstance(left, ast.Name) and left.id == name and not _uses(v.right, name) and self._only_fresh_lists(name, s):
                    return self._emit(v.right, name, s)
        # X.extend(G)  /  X += G
        if isinstance(s, ast.Expr) and isinstance(s.value, ast.Call) and isinstance(s.value.func, ast.Attribute) and s.value.func.attr == "extend" \
                and isinstance(s.value.func.value, ast.Name) and len(s.value.args) == 1 and not s.value.keywords \
                and isinstance(s.value.args[0], (ast.GeneratorExp, ast.ListComp, ast.List, ast.Tuple)) and self._needs_loops(s.value.args[0]):
            return self._emit(s.value.args[0], s.value.func.value.id, s)
        if isinstance(s, ast.AugAssign) and isinstance(s.op, ast.Add) and isinstance(s.target, ast.Name) \
                and isinstance(s.value, (ast.GeneratorExp, ast.ListComp, ast.List, ast.Tuple)) and self._needs_loops(s.value):
            return self._emit(s.value, s.target.id, s)
        if isinstance(s, ast.For):
            # for v in (E for t in IT if C): BODY   ->   for t in IT: if C: BODY[v := E]
            it = s.iter
            if isinstance(it, (ast.GeneratorExp, ast.ListComp)) and not s.orelse and not any(g.is_async for g in it.generators) \
                    and not any(isinstance(x, (ast.NamedExpr, ast.Yield, ast.YieldFrom, ast.Await)) for x in ast.walk(it)):
                own = _own_jumps(s.body)
                if own and (len(it.generators) > 1 or any(g.ifs for g in it.generators)):
                    return None
                comp_vars = {x.id for g in it.generators for x in ast.walk(g.target) if isinstance(x, ast.Name)}
                if any(_uses(s.body, v) or _stores(s.body, v) for v in comp_vars):
                    return None
                m: Dict[str, ast.AST] = {}
                if _bind_target(s.target, it.elt, m) and _can_substitute(m, s.body):
                    body = [_subst(x, m) for x in s.body]
                else:
                    body = [ast.Assign(targets=[copy.deepcopy(s.target)], value=it.elt, lineno=s.lineno)] + list(s.body)
                for gen in reversed(it.generators):
                    for c in reversed(gen.ifs):
                        body = [ast.If(test=c, body=body, orelse=[])]
                    body = [ast.For(target=gen.target, iter=gen.iter, body=body, orelse=[], lineno=s.lineno)]
                return body
            # for v in (A, B): BODY   ->   BODY[v := A]; BODY[v := B]      (break / continue / else as in the flattener's unrolling)
            d = self._resolve_display(it, before or [])
            if d is not None and 1 <= len(d) <= 8 and not all(isinstance(x, ast.Constant) for x in d):
                tnames = [x.id for x in ast.walk(s.target) if isinstance(x, ast.Name)]
                jumps = bool(_own_jumps(s.body)) or bool(s.orelse)
                live_after = any(_uses(self.fn, x) > _uses(s.body, x) for x in tnames)       # the loop variables are read after the loop
                k = next(_counter)
                outer = f"u{k}:loop"
                copies: List[ast.stmt] = []
                for idx, elem in enumerate(d):
                    m = {}
                    if not live_after and _bind_target(s.target, elem, m) and _can_substitute(m, s.body):
                        body = [_subst(x, m) for x in s.body]
                    else:
                        if any(_stores(s.body, x) for x in tnames):
                            return None
                        body = [ast.Assign(targets=[copy.deepcopy(s.target)], value=copy.deepcopy(elem), lineno=s.lineno)] + [copy.deepcopy(x) for x in s.body]
                    if jumps:
                        inner = f"u{k}:{idx}"
                        body = _own_jumps_to_blocks(body, inner, outer)
                        blk = InlineBlock(test=ast.Constant(value=True), body=body or [ast.Pass()], orelse=[])
                        blk.label = inner
                        copies.append(blk)
                    else:
                        copies += body
                if jumps:
                    whole = InlineBlock(test=ast.Constant(value=True), body=copies + list(s.orelse), orelse=[])
                    whole.label = outer
                    return [whole]
                return copies
        return None


# ------------------------------------------------------------------------------------------------ entry
def _derived(flat: FuncInfo, fn: ast.FunctionDef, raw: FuncInfo) -> FuncInfo:
    ast.fix_missing_locations(fn)
    out = FuncInfo(flat.mod, flat.cls, fn, static=flat.static)
    out.qn = flat.qn
    out.flat_of = getattr(flat, "flat_of", raw)
    out.inlined = list(getattr(flat, "inlined", []))
    out.inlined_bodies = getattr(flat, "inlined_bodies", [])
    out.deep_of = flat
    return out


def _tail_delegates(repo: Repo, raw: FuncInfo) -> Set[str]:
    """public MODULE-LEVEL functions of the repository whose result is what `raw` returns (`return build(..)`, also through one local
    name): what the function returns is made there, so they are analysed in place like private helpers, whatever their name"""
    out: Set[str] = set()

    def callee(v: ast.AST) -> Optional[str]:
        if isinstance(v, ast.Call) and isinstance(v.func, ast.Name) and not _is_private(v.func.id):
            try:
                r = repo.lookup(raw.mod.name, v.func.id)
            except Exception:
                r = None
            if r and r[0] == "func":
                fi = repo.funcs.get(f"{repo.mods[r[2]].short}::{v.func.id}")
                if fi is not None and not fi.cls and fi.qn != raw.qn:
                    return v.func.id
        return None

    nodes = [n for n in _walk_scope(raw.node)]
    for n in nodes:
        if isinstance(n, ast.Return) and n.value is not None:
            c = callee(n.value)
            if c:
                out.add(c)
            elif isinstance(n.value, ast.Name):
                defs = [m for m in nodes if isinstance(m, ast.Assign) and len(m.targets) == 1 and isinstance(m.targets[0], ast.Name) and m.targets[0].id == n.value.id]
                if len(defs) == 1 and _stores(raw.node, n.value.id) == 1:
                    c = callee(defs[0].value)
                    if c:
                        out.add(c)
    return out


def deep_of(repo: Repo, raw: FuncInfo, also=None) -> FuncInfo:
    if also is None:
        try:
            also = _tail_delegates(repo, raw) or None
        except (KeyError, AttributeError, TypeError, ValueError, IndexError):
            also = None
    key = (id(repo), raw.qn, id(raw.node), tuple(sorted(also or ())))
    if key in _cache:
        return _cache[key]
    flat = flatten(repo, raw, MAX_DEPTH, set(also) if also else None)
    _cache[key] = flat          # recursion through helpers sees the flattened function
    fn = copy.deepcopy(flat.node)
    norm = _Norm(repo, raw, flat, fn, set(also) if also else None)
    try:
        changed = norm.run()
    except (RecursionError, KeyError, IndexError, AttributeError, TypeError, ValueError):
        if DEBUG:
            raise
        changed = False         # a construct the rewrites do not handle: the flattened function is analysed as it is
    out = _derived(flat, fn, raw) if changed else flat
    _cache[key] = out
    _keep.append((repo, raw, out))
    return out


def deep(repo: Repo, spec: str, also=None) -> FuncInfo:
    """`L.fn(repo, spec)` with the further normalisations listed in the module docstring"""
    return deep_of(repo, repo.func(spec), also)


# ================================================================================================ positions in a token sequence
Affine = Tuple[int, int, Optional[int]]        # value = c0 + c1 * k, k = iteration counter of the loop with CFG node `loop` (None when c1 == 0)


class Positions:
    """Which elements of a sequence a value is computed from.  `is_root(expr)` says which expressions denote the whole sequence;
    positions are affine in the iteration counter of the loop that produces them: (a, s, loop) = element a + s*k in iteration k.

    Understood: `for i in range(a, .., s)`, `SEQ[a::s]` / `SEQ[a:]` views (also through names), `zip`, `enumerate`, `itertools.count`,
    `i + c` / `c * i` arithmetic, induction variables (`i = a` .. `while ..: .. i += s`), `it = iter(VIEW); zip(it, it)`, records
    (NamedTuple / dataclass constructors read back by field, index or unpacking), tuples, local lists filled by `append`."""

    UNKNOWN = ("?",)

    def __init__(self, repo: Repo, f: FuncInfo, is_root):
        self.repo, self.f = repo, f
        self.p = L.prov(repo, f)
        self.g = self.p.g
        self.rd = self.p.rd
        self.pm = L.parents_of(f)
        self.is_root = is_root
        self._busy: Set[tuple] = set()

    # -------------------------------------------------------------- plumbing
    def _at(self, e: ast.AST, at: Optional[int]) -> Optional[int]:
        try:
            return self.p.node_of(e)
        except KeyError:
            return at

    def _defs(self, name: str, at: int) -> List[int]:
        return sorted(self.rd.defs_reaching(at, name))

    def _value_defs(self, e: ast.Name, at: int) -> Optional[List[Tuple[ast.AST, int, Optional[ast.AST]]]]:
        """[(value expression, node, target pattern or None)] for plain bindings reaching the use; None when some definition is not one"""
        out = []
        for d in self._defs(e.id, at):
            if d == self.g.entry:
                return None
            st = self.g.stmt[d]
            if isinstance(st, ast.Assign):
                hit = False
                for t in st.targets:
                    if isinstance(t, ast.Name) and t.id == e.id:
                        out.append((st.value, d, None))
                        hit = True
                    elif e.id in C.target_names(t):
                        out.append((st.value, d, t))
                        hit = True
                if not hit:
                    return None
            elif isinstance(st, ast.AnnAssign) and st.value is not None and isinstance(st.target, ast.Name):
                out.append((st.value, d, None))
            else:
                return None
        return out

    @staticmethod
    def _const_int(e: Optional[ast.AST]) -> Optional[int]:
        if isinstance(e, ast.Constant) and isinstance(e.value, int) and not isinstance(e.value, bool):
            return e.value
        if isinstance(e, ast.UnaryOp) and isinstance(e.op, ast.USub) and isinstance(e.operand, ast.Constant) and isinstance(e.operand.value, int):
            return -e.operand.value
        return None

    def _callee(self, e: ast.AST) -> str:
        if isinstance(e, ast.Call):
            if isinstance(e.func, ast.Name):
                return e.func.id
            if isinstance(e.func, ast.Attribute) and isinstance(e.func.value, ast.Name) and e.func.value.id == "itertools":
                return e.func.attr
        return ""

    # -------------------------------------------------------------- what a loop variable is bound to
    def _iter_component(self, it: ast.AST, target: ast.AST, name: str, at: int, loop: int):
        """('index', affine) / ('elem', affine position) / None for the variable `name` of the loop target over iterable `it`"""
        cn = self._callee(it)
        if isinstance(target, ast.Name):
            if target.id != name:
                return None
            if cn == "range" and not it.keywords and 1 <= len(it.args) <= 3:
                a = 0 if len(it.args) == 1 else self._const_int(it.args[0])
                s = 1 if len(it.args) < 3 else self._const_int(it.args[2])
                if a is None or s is None:
                    return None
                return ("index", (a, s, loop))
            if cn == "count" and not it.keywords and len(it.args) <= 2:
                a = 0 if not it.args else self._const_int(it.args[0])
                s = 1 if len(it.args) < 2 else self._const_int(it.args[1])
                if a is None or s is None:
                    return None
                return ("index", (a, s, loop))
            v = self.view(it, at)
            if v is not None and not v[2]:
                return ("elem", (v[0], v[1], loop))
            return None
        if isinstance(target, (ast.Tuple, ast.List)) and not any(isinstance(x, ast.Starred) for x in target.elts):
            idx = next((i for i, t in enumerate(target.elts) if name in C.target_names(t)), None)
            if idx is None:
                return None
            sub = target.elts[idx]
            if cn == "enumerate" and len(target.elts) == 2 and it.args and len(it.args) <= 2:
                start = 0
                if len(it.args) == 2:
                    start = self._const_int(it.args[1])
                for k in it.keywords:
                    if k.arg == "start":
                        start = self._const_int(k.value)
                if start is None:
                    return None
                if idx == 0:
                    return ("index", (start, 1, loop)) if isinstance(sub, ast.Name) else None
                return self._iter_component(it.args[0], sub, name, at, loop)
            if cn in ("zip", "zip_longest") and len(it.args) == len(target.elts):
                # zip(it, it) over ONE iterator: consecutive elements
                if len(it.args) > 1 and all(isinstance(a, ast.Name) and a.id == it.args[0].id for a in it.args):
                    v = self.view(it.args[0], at)
                    if v is not None and v[2] and isinstance(sub, ast.Name):
                        n = len(it.args)
                        return ("elem", (v[0] + v[1] * idx, v[1] * n, loop))
                    return None
                return self._iter_component(it.args[idx], sub, name, at, loop)
        return None

    # -------------------------------------------------------------- views of the sequence
    def view(self, e: ast.AST, at: Optional[int], depth: int = 0):
        """(start, step, is_iterator) when e denotes SEQ[start::step] (the whole sequence: (0, 1, False)); None otherwise"""
        if depth > 10:
            return None
        at = self._at(e, at)
        try:
            if self.is_root(e):
                return (0, 1, False)
        except KeyError:
            pass
        if isinstance(e, ast.Subscript) and isinstance(e.slice, ast.Slice):
            base = self.view(e.value, at, depth + 1)
            if base is None or base[2]:
                return None
            lo = 0 if e.slice.lower is None else self._const_int(e.slice.lower)
            st = 1 if e.slice.step is None else self._const_int(e.slice.step)
            if lo is None or st is None or lo < 0 or st <= 0:
                return None
            return (base[0] + base[1] * lo, base[1] * st, False)
        if isinstance(e, ast.Call) and isinstance(e.func, ast.Name) and e.func.id in ("list", "tuple", "iter") and len(e.args) == 1 and not e.keywords:
            base = self.view(e.args[0], at, depth + 1)
            if base is None:
                return None
            return (base[0], base[1], base[2] or e.func.id == "iter")
        if isinstance(e, ast.Call) and self._callee(e) == "islice" and len(e.args) in (3, 4) and not e.keywords:
            base = self.view(e.args[0], at, depth + 1)
            lo = self._const_int(e.args[1])
            st = 1 if len(e.args) == 3 else self._const_int(e.args[3])
            if base is None or base[2] or lo is None or st is None or lo < 0 or st <= 0:
                return None
            return (base[0] + base[1] * lo, base[1] * st, False)
        if isinstance(e, ast.Name) and at is not None:
            defs = self._value_defs(e, at)
            if not defs:
                return None
            got = set()
            for v, d, pat in defs:
                if pat is not None:
                    return None
                got.add(self.view(v, d, depth + 1))
            return got.pop() if len(got) == 1 else None
        return None

    # -------------------------------------------------------------- integer values
    def affine(self, e: ast.AST, at: Optional[int], depth: int = 0) -> Optional[Affine]:
        if depth > 12:
            return None
        at = self._at(e, at)
        c = self._const_int(e)
        if c is not None:
            return (c, 0, None)
        if isinstance(e, ast.BinOp) and isinstance(e.op, (ast.Add, ast.Sub, ast.Mult)):
            a, b = self.affine(e.left, at, depth + 1), self.affine(e.right, at, depth + 1)
            if a is None or b is None:
                return None
            if isinstance(e.op, ast.Mult):
                if a[1] == 0:
                    return (a[0] * b[0], a[0] * b[1], b[2] if a[0] * b[1] else None)
                if b[1] == 0:
                    return (a[0] * b[0], a[1] * b[0], a[2] if a[1] * b[0] else None)
                return None
            if a[1] and b[1] and a[2] != b[2]:
                return None
            sg = 1 if isinstance(e.op, ast.Add) else -1
            c1 = a[1] + sg * b[1]
            return (a[0] + sg * b[0], c1, (a[2] if a[1] else b[2]) if c1 else None)
        if isinstance(e, ast.Name) and at is not None:
            return self._affine_name(e, at, depth)
        return None

    def _affine_name(self, e: ast.Name, at: int, depth: int) -> Optional[Affine]:
        defs = self._defs(e.id, at)
        if not defs or self.g.entry in defs:
            return None
        stmts = [(d, self.g.stmt[d]) for d in defs]
        augs = [(d, st) for d, st in stmts if isinstance(st, ast.AugAssign)]
        if augs:
            # induction variable: i = a; while ..: .. i += s   (one increment, executed in every iteration)
            if len(augs) != 1:
                return None
            d, st = augs[0]
            step = self._const_int(st.value)
            if step is None or not isinstance(st.op, (ast.Add, ast.Sub)) or not isinstance(st.target, ast.Name):
                return None
            step = step if isinstance(st.op, ast.Add) else -step
            loop_stmt = self.pm.get(st)
            if not isinstance(loop_stmt, (ast.For, ast.While)) or not any(st is x for x in loop_stmt.body):
                return None
            loop = self.g.node_of(loop_stmt)
            inits = [x for x in self._defs(e.id, d) if x != d]
            vals = set()
            for x in inits:
                sx = self.g.stmt[x] if x != self.g.entry else None
                if not (isinstance(sx, (ast.Assign, ast.AnnAssign)) and sx.value is not None):
                    return None
                v = self.affine(sx.value, x, depth + 1)
                if v is None or v[1] != 0:
                    return None
                vals.add(v[0])
            if len(vals) != 1:
                return None
            init = vals.pop()
            others = [x for x in defs if x != d]
            if others and set(others) <= set(inits):
                return (init, step, loop)             # read before the increment of this iteration
            if not others:
                return (init + step, step, loop)      # read after it
            return None
        got = set()
        for d, st in stmts:
            if isinstance(st, ast.For):
                comp = self._iter_component(st.iter, st.target, e.id, d, d)
                if comp is None or comp[0] != "index":
                    return None
                got.add(comp[1])
            elif isinstance(st, (ast.Assign, ast.AnnAssign)) and st.value is not None:
                tgts = st.targets if isinstance(st, ast.Assign) else [st.target]
                if not any(isinstance(t, ast.Name) and t.id == e.id for t in tgts):
                    return None
                got.add(self.affine(st.value, d, depth + 1))
            else:
                return None
        if len(got) != 1:
            return None
        return got.pop()

    # -------------------------------------------------------------- elements
    def element(self, e: ast.AST, at: Optional[int], depth: int = 0) -> Optional[Affine]:
        """the position when e denotes ONE element of the sequence"""
        if depth > 12:
            return None
        at = self._at(e, at)
        if isinstance(e, ast.Subscript) and not isinstance(e.slice, ast.Slice):
            base = self.view(e.value, at)
            if base is None or base[2]:
                return None
            i = self.affine(e.slice, at)
            if i is None or i[0] < 0:
                return None
            return (base[0] + base[1] * i[0], base[1] * i[1], i[2])
        if isinstance(e, ast.Name) and at is not None:
            defs = self._defs(e.id, at)
            if not defs or self.g.entry in defs:
                return None
            got = set()
            for d in defs:
                st = self.g.stmt[d]
                if isinstance(st, ast.For):
                    comp = self._iter_component(st.iter, st.target, e.id, d, d)
                    got.add(comp[1] if comp is not None and comp[0] == "elem" else None)
                elif isinstance(st, (ast.Assign, ast.AnnAssign)) and st.value is not None:
                    tgts = st.targets if isinstance(st, ast.Assign) else [st.target]
                    if not any(isinstance(t, ast.Name) and t.id == e.id for t in tgts):
                        return None
                    got.add(self.element(st.value, d, depth + 1))
                else:
                    return None
            if len(got) == 1 and None not in got:
                return got.pop()
        return None

    # -------------------------------------------------------------- what a value is computed from
    def _record_arg(self, ctor: ast.AST, field: Optional[str], index: Optional[int]) -> Optional[ast.AST]:
        """the constructor argument of a record (or the element of a tuple display) read back as `.field` / `[index]`"""
        if isinstance(ctor, (ast.Tuple, ast.List)) and index is not None and not any(isinstance(x, ast.Starred) for x in ctor.elts):
            return ctor.elts[index] if -len(ctor.elts) <= index < len(ctor.elts) else None
        if not (isinstance(ctor, ast.Call) and isinstance(ctor.func, ast.Name)):
            return None
        ci = self.repo.classes.get(ctor.func.id)
        if ci is None or not getattr(ci, "record_kind", None):
            return None
        names = [n for n, _d in ci.record_fields]
        if field is None:
            if index is None or ci.record_kind != "namedtuple" or not (-len(names) <= index < len(names)):
                return None
            field = names[index]
        if field not in names:
            return None
        i = names.index(field)
        if any(isinstance(a, ast.Starred) for a in ctor.args) or any(k.arg is None for k in ctor.keywords):
            return None
        if i < len(ctor.args):
            return ctor.args[i]
        for k in ctor.keywords:
            if k.arg == field:
                return k.value
        return None

    def _component(self, base: ast.AST, at: Optional[int], field: Optional[str], index: Optional[int], depth: int):
        """sources of `base.field` / `base[index]` when base is (a name for) a record / tuple built here; None: not such a thing"""
        if isinstance(base, ast.Name) and at is not None:
            defs = self._value_defs(base, at)
            if not defs:
                return None
            out: Set = set()
            for v, d, pat in defs:
                if pat is not None:
                    return None
                got = self._component(v, d, field, index, depth + 1)
                if got is None:
                    return None
                out |= got
            return out
        arg = self._record_arg(base, field, index)
        if arg is None:
            return None
        return self.sources(arg, self._at(arg, at), depth + 1)

    def sources(self, e: ast.AST, at: Optional[int] = None, depth: int = 0) -> Set:
        """positions of the elements of the sequence the value of e is computed from (UNKNOWN marks an element read that is not understood)"""
        if depth > 40 or e is None:
            return set()
        at = self._at(e, at)
        el = self.element(e, at)
        if el is not None:
            return {el}
        if isinstance(e, ast.Constant):
            return set()
        if isinstance(e, ast.Attribute):
            got = self._component(e.value, at, e.attr, None, depth)
            if got is not None:
                return got
            return self.sources(e.value, at, depth + 1)
        if isinstance(e, ast.Subscript):
            if not isinstance(e.slice, ast.Slice):
                ci = self._const_int(e.slice)
                if ci is not None:
                    got = self._component(e.value, at, None, ci, depth)
                    if got is not None:
                        return got
                v = self.view(e.value, at)
                if v is not None:
                    return {self.UNKNOWN}      # an element of the sequence at a position that is not understood
                return self.sources(e.value, at, depth + 1) | self.sources(e.slice, at, depth + 1)
            if self.view(e, at) is not None or self.view(e.value, at) is not None:
                return {self.UNKNOWN}          # a stretch of the sequence used as a value
            return self.sources(e.value, at, depth + 1)
        if isinstance(e, ast.Name):
            if at is None:
                return set()
            key = (e.id, at)
            if key in self._busy:
                return set()
            self._busy.add(key)
            try:
                return self._name_sources(e, at, depth)
            finally:
                self._busy.discard(key)
        out: Set = set()
        for ch in ast.iter_child_nodes(e):
            if isinstance(ch, (ast.expr_context, ast.operator, ast.boolop, ast.unaryop, ast.cmpop)):
                continue
            if isinstance(ch, ast.keyword):
                out |= self.sources(ch.value, at, depth + 1)
            elif isinstance(ch, ast.comprehension):
                out |= self.sources(ch.iter, at, depth + 1)
            elif isinstance(ch, ast.expr):
                out |= self.sources(ch, at, depth + 1)
        return out

    def _name_sources(self, e: ast.Name, at: int, depth: int) -> Set:
        out: Set = set()
        if self.view(e, at) is not None:
            return {self.UNKNOWN}
        for d in self._defs(e.id, at):
            if d == self.g.entry:
                continue
            st = self.g.stmt[d]
            if isinstance(st, ast.Assign):
                for t in st.targets:
                    if isinstance(t, ast.Name) and t.id == e.id:
                        out |= self.sources(st.value, d, depth + 1)
                    elif e.id in C.target_names(t):
                        out |= self._unpacked(t, st.value, e.id, d, depth)
            elif isinstance(st, ast.AnnAssign) and st.value is not None:
                out |= self.sources(st.value, d, depth + 1)
            elif isinstance(st, ast.AugAssign):
                out |= self.sources(st.value, d, depth + 1)
            elif isinstance(st, ast.For):
                comp = self._iter_component(st.iter, st.target, e.id, d, d)
                if comp is not None:
                    if comp[0] == "elem":
                        out.add(comp[1])
                    continue
                out |= self._loop_var_sources(st, e.id, d, depth)
            elif isinstance(st, ast.With):
                for it in st.items:
                    out |= self.sources(it.context_expr, d, depth + 1)
        # what was put into a local container under this name
        for meth, arg in self.p._content.get(e.id, []):
            try:
                an = self.p.node_of(arg)
            except KeyError:
                continue
            out |= self.sources(arg, an, depth + 1)
        return out

    def _unpacked(self, target: ast.AST, value: ast.AST, name: str, d: int, depth: int) -> Set:
        """a, b = <value>: the component that lands in `name`"""
        if isinstance(target, (ast.Tuple, ast.List)) and not any(isinstance(x, ast.Starred) for x in target.elts):
            idx = next((i for i, t in enumerate(target.elts) if name in C.target_names(t)), None)
            if idx is not None:
                sub = target.elts[idx]
                if isinstance(value, (ast.Tuple, ast.List)) and len(value.elts) == len(target.elts) and not any(isinstance(x, ast.Starred) for x in value.elts):
                    if isinstance(sub, ast.Name):
                        return self.sources(value.elts[idx], d, depth + 1)
                    return self._unpacked(sub, value.elts[idx], name, d, depth)
                if isinstance(sub, ast.Name):
                    got = self._component(value, d, None, idx, depth)
                    if got is not None:
                        return got
        return self.sources(value, d, depth + 1)

    def _loop_var_sources(self, st: ast.For, name: str, d: int, depth: int) -> Set:
        """for a, b in CONTAINER: the elements put into a local container (tuples component-wise)"""
        it = st.iter
        if isinstance(it, ast.Name) and it.id in self.p._content and isinstance(st.target, (ast.Tuple, ast.List, ast.Name)):
            out: Set = set()
            for meth, arg in self.p._content.get(it.id, []):
                if meth not in ("append", "add", "insert", "appendleft"):
                    return self.sources(it, d, depth + 1)
                try:
                    an = self.p.node_of(arg)
                except KeyError:
                    continue
                if isinstance(st.target, ast.Name):
                    out |= self.sources(arg, an, depth + 1)
                else:
                    out |= self._unpacked(st.target, arg, name, an, depth)
            return out
        return self.sources(it, d, depth + 1)


# ================================================================================================ walks over token lists (round 5: hardening)
# Helpers for clauses of the form "under the valuation of the guard atoms that describes a well-formed element, every turn of the walk
# brings the element to its sink and goes on with the next one" and "the value handed on comes from position P of the element".
def safe_trace(p, e: ast.AST, **kw) -> Set[tuple]:
    try:
        return p.trace(e, **kw)
    except (KeyError, RecursionError):
        return set()


def position_of(path: tuple, start: int) -> tuple:
    """the positional steps (index / slice; unpacking a, b, c = X counts as the index) that follow path[:start]"""
    out = []
    for st in path[start:]:
        if st == "item" or st.startswith("item:") or st.startswith("slice:"):
            out.append(st)
        elif st.startswith("unpack:") and st[7:].isdigit():
            out.append("item:" + st[7:])
        else:
            break
    return tuple(out)


def _cmp_truth(op: ast.cmpop, a: int, b: int) -> Optional[bool]:
    for cls, fn_ in ((ast.Eq, lambda: a == b), (ast.NotEq, lambda: a != b), (ast.Lt, lambda: a < b), (ast.LtE, lambda: a <= b),
                     (ast.Gt, lambda: a > b), (ast.GtE, lambda: a >= b)):
        if isinstance(op, cls):
            return fn_()
    return None


def _int_const(e: ast.AST) -> Optional[int]:
    if isinstance(e, ast.Constant) and isinstance(e.value, int) and not isinstance(e.value, bool):
        return e.value
    return None


def compare_at(e: ast.AST, is_subject, n: int) -> Optional[bool]:
    """truth of the comparison `S <op> K` / `K <op> S` (K an integer literal, `is_subject(S)`) when S has the value n; None: not such a test"""
    if not (isinstance(e, ast.Compare) and len(e.ops) == 1):
        return None
    l, r_ = e.left, e.comparators[0]
    k = _int_const(r_)
    if k is not None and is_subject(l):
        return _cmp_truth(e.ops[0], n, k)
    k = _int_const(l)
    if k is not None and is_subject(r_):
        return _cmp_truth(e.ops[0], k, n)
    return None


def element_atoms(p, elem: tuple, keywords: Dict[str, str], tables: Dict[tuple, str], length: Optional[Tuple[int, str]] = None):
    """matcher for `L.Guards` about ONE element (provenance path `elem`) of a list of token lists:
      * `<head> == K` / `!=`   for K in `keywords`  (head = first token of the element)          -> atom keywords[K]
      * `<head> in T` / `not in` for a table T (provenance path) in `tables`                       -> atom tables[T]
      * `len(<element>) <op> n` evaluated for an element of `length[0]` tokens                    -> atom length[1] (with the polarity the
        test has for that length: `len(x) != 3`, `len(x) < 3`, `len(x) == 4` are all false for three tokens)"""
    head = elem + ("item:0",)

    def is_head(e):
        tr = safe_trace(p, e)
        return bool(tr) and all(position_of(x, len(elem)) == ("item:0",) and x[:len(elem)] == elem and len(x) == len(elem) + 1 for x in tr)

    def is_len_of_element(e):
        if not (isinstance(e, ast.Call) and isinstance(e.func, ast.Name) and e.func.id == "len" and len(e.args) == 1 and not e.keywords):
            return False
        tr = safe_trace(p, e.args[0])
        return bool(tr) and all(x == elem for x in tr)

    def matcher(e):
        if not (isinstance(e, ast.Compare) and len(e.ops) == 1):
            return None
        op, l, r_ = e.ops[0], e.left, e.comparators[0]
        if isinstance(op, (ast.Eq, ast.NotEq)):
            for a_, b_ in ((l, r_), (r_, l)):
                if isinstance(b_, ast.Constant) and isinstance(b_.value, str) and b_.value in keywords and is_head(a_):
                    return keywords[b_.value] if isinstance(op, ast.Eq) else "!" + keywords[b_.value]
        if isinstance(op, (ast.In, ast.NotIn)) and tables and is_head(l):
            tr = safe_trace(p, r_)
            for t, atom in tables.items():
                if tr and all(x == t for x in tr):
                    return atom if isinstance(op, ast.In) else "!" + atom
        if length is not None:
            v = compare_at(e, is_len_of_element, length[0])
            if v is not None:
                return length[1] if v else "!" + length[1]
        return None

    matcher.head = head
    return matcher


def misplaced_head_tests(f: FuncInfo, p, elem: tuple, keywords: Iterable[str], tables: Iterable[tuple]) -> List[ast.Compare]:
    """comparisons that test a section keyword / membership in a table of declared names on a token of the element that is NOT its head
    (`x[1] == '='`): the kind of an element is decided by its first token"""
    keywords, tables = set(keywords), set(tables)
    out = []
    for e in ast.walk(f.node):
        if not (isinstance(e, ast.Compare) and len(e.ops) == 1):
            continue
        op, l, r_ = e.ops[0], e.left, e.comparators[0]
        subject = None
        if isinstance(op, (ast.Eq, ast.NotEq)):
            for a_, b_ in ((l, r_), (r_, l)):
                if isinstance(b_, ast.Constant) and isinstance(b_.value, str) and b_.value in keywords:
                    subject = a_
        elif isinstance(op, (ast.In, ast.NotIn)):
            tr = safe_trace(p, r_)
            if tr and any(all(x == t for x in tr) for t in tables):
                subject = l
        if subject is None:
            continue
        tr = safe_trace(p, subject)
        if tr and all(x[:len(elem)] == elem and len(position_of(x, len(elem))) == len(x) - len(elem) == 1 for x in tr) and \
                not any(position_of(x, len(elem)) == ("item:0",) for x in tr):
            out.append(e)
    return out


def loops_over(f: FuncInfo, p, root: tuple) -> List[ast.For]:
    """the statement loops whose iterable is (an alias of) the value with provenance `root`"""
    out = []
    for n in ast.walk(f.node):
        if isinstance(n, ast.For):
            tr = safe_trace(p, n.iter)
            if tr and all(x == root for x in tr):
                out.append(n)
    return out


STORING_METHODS = ("add", "append", "update", "extend", "insert", "appendleft", "__setitem__")


def storing_nodes(f: FuncInfo, p, g, is_value) -> List[int]:
    """CFG nodes of the statements that put a value selected by `is_value(paths)` into a container: `X[k] = v`, `X.add(v)`, `X.append(v)` ..."""
    out = []
    for n in ast.walk(f.node):
        vals: List[ast.AST] = []
        if isinstance(n, ast.Assign) and any(isinstance(t, ast.Subscript) for t in n.targets):
            vals = [n.value]
        elif isinstance(n, ast.Expr) and isinstance(n.value, ast.Call) and isinstance(n.value.func, ast.Attribute) and n.value.func.attr in STORING_METHODS:
            vals = list(n.value.args)
        if vals and any(is_value(safe_trace(p, v)) for v in vals):
            k = g.node_of(n)
            if k is not None:
                out.append(k)
    return out


def walk_defect(G, valuation: Dict[str, bool], loop: ast.For, sinks: Iterable[int]) -> Optional[str]:
    """None when, under the valuation, every turn of the loop brings the element to one of the sink statements and then goes on with the
    next element; otherwise what goes wrong"""
    g = G.g
    head = g.node_of(loop)
    sinks = set(sinks)
    reach: Set[int] = set()
    for m, l in g.succ[head]:
        if l == "iter":
            reach |= G.reach(valuation, start=m)
    live = sorted(n for n in sinks if n in reach)
    if not live:
        return "is never stored (the storing statement is missing or cut off by the tests in front of it)"
    if not L.must_pass_in_loop(G, valuation, loop, sinks):
        return "is not stored on every path through one turn of the loop"
    if L.leaves_loop_early(G, valuation, loop):
        return "ends the walk: the elements after it are not read"
    for n in live:
        if head not in G.reach(valuation, start=n):
            return "is stored, but the turn does not go on with the next element (it can only raise)"
    return None


def none_test_atoms(p, roots: Dict[tuple, str], pm: Optional[dict] = None):
    """matcher for `X is None` / `is not None` / `== None` / `!= None` where X has exactly the provenance path in `roots`; the atom is true
    when X IS None.  With the parent map `pm` also X used as a truth value (`if X:`, `X and ..`, `not X`, `.. if X else ..`)"""
    def truth_context(e) -> bool:
        par = pm.get(e) if pm is not None else None
        if isinstance(par, (ast.If, ast.While, ast.IfExp, ast.Assert)):
            return par.test is e
        if isinstance(par, ast.BoolOp):
            return True
        return isinstance(par, ast.UnaryOp) and isinstance(par.op, ast.Not)

    def matcher(e):
        if pm is not None and isinstance(e, (ast.Name, ast.Attribute)) and isinstance(getattr(e, "ctx", None), ast.Load) and truth_context(e):
            tr = safe_trace(p, e)
            for root, atom in roots.items():
                if tr and all(x == root for x in tr):
                    return "!" + atom
        if isinstance(e, ast.Compare) and len(e.ops) == 1 and isinstance(e.ops[0], (ast.Is, ast.IsNot, ast.Eq, ast.NotEq)) and \
                isinstance(e.comparators[0], ast.Constant) and e.comparators[0].value is None:
            tr = safe_trace(p, e.left)
            for root, atom in roots.items():
                if tr and all(x == root for x in tr):
                    return atom if isinstance(e.ops[0], (ast.Is, ast.Eq)) else "!" + atom
        return None
    return matcher


def any_matcher(*ms):
    def matcher(e):
        for m in ms:
            a = m(e)
            if a is not None:
                return a
        return None
    return matcher


def dereferences(f: FuncInfo, p, root: tuple) -> List[ast.Attribute]:
    """attribute reads `X.a` where X has exactly the provenance `root`"""
    out = []
    for n in ast.walk(f.node):
        if isinstance(n, ast.Attribute) and isinstance(n.ctx, ast.Load):
            tr = safe_trace(p, n.value)
            if tr and all(x == root for x in tr):
                out.append(n)
    return out


def unbound_names(f: FuncInfo, p, g, expr: ast.AST, seen: Set[int]) -> List[str]:
    """local names read in `expr` all of whose reaching definitions lie in statements that are not executed (not in `seen`): under the
    valuation that gave `seen` the read raises UnboundLocalError"""
    out = []
    n = g.node_containing(expr)
    if n is None or n not in seen:
        return out
    for x in ast.walk(expr):
        if isinstance(x, ast.Name) and isinstance(x.ctx, ast.Load):
            defs = p.rd.defs_reaching(n, x.id)
            if defs and not any(d in seen for d in defs) and g.entry not in defs:
                out.append(x.id)
    return out


def _identity(paths) -> Set[tuple]:
    """the paths that say which object a value is (no content flows)"""
    return {x for x in paths if not any(st.startswith("in:") for st in x)}


def stored_into_member(f: FuncInfo, p, g, container: ast.AST, is_value) -> bool:
    """is a value selected by `is_value(paths)` put into a MEMBER of the container through a local name for the member:
    `group = C[k]` / `C.setdefault(k, set())` / `C.get(k)` .. `group.add(v)`  (C the container expression or an alias of it)"""
    ident = _identity(safe_trace(p, container))
    if not ident:
        return False
    names = L.aliases(f, {container.id}) if isinstance(container, ast.Name) else None
    for n in ast.walk(f.node):
        if not (isinstance(n, ast.Call) and isinstance(n.func, ast.Attribute) and n.func.attr in STORING_METHODS and isinstance(n.func.value, ast.Name)):
            continue
        if not any(is_value(safe_trace(p, v)) for v in n.args):
            continue
        at = g.node_containing(n)
        if at is None:
            continue
        for d in p.rd.defs_reaching(at, n.func.value.id):
            st = g.stmt[d]
            if not (isinstance(st, (ast.Assign, ast.AnnAssign)) and st.value is not None):
                continue
            v = st.value
            owner = None
            if isinstance(v, ast.Subscript) and not isinstance(v.slice, ast.Slice):
                owner = v.value
            elif isinstance(v, ast.Call) and isinstance(v.func, ast.Attribute) and v.func.attr in ("setdefault", "get", "__getitem__"):
                owner = v.func.value
            if owner is None:
                continue
            if names is not None and isinstance(owner, ast.Name) and owner.id not in names and container.id not in L.aliases(f, {owner.id}):
                continue
            if _identity(safe_trace(p, owner)) & ident:
                return True
    return False
