"""Local normalisations for C17 (candidates for promotion into sa/inline.py):

`normalised(repo, spec)` = `L.fn(repo, spec)` (private helpers inlined) and on top of that

  * generator helpers consumed by a `for` loop are expanded in place:  `for x in self._iter(..): BODY`  becomes the generator's body
    with every `yield e` replaced by `x = e; BODY` (`continue` / `break` of the consumer and `return` of the generator become
    InlineJumps to the end of the BODY copy / of the whole expansion);
  * loops over a literal or constant sequence are unrolled (`for name in FIELDS: ...`, `for dst, src in ((a.x, b.x), ..): ...`);
  * `getattr(o, name)` / `setattr(o, name, v)` whose name is a string constant at that point (literal, module constant, the single
    reaching definition of a local / inlined parameter) become `o.<name>` / `o.<name> = v`.

The library is never imported or executed: everything is an AST -> AST rewrite of a private copy.
"""
from __future__ import annotations

import ast
import copy
import itertools
from typing import Dict, List, Optional, Set, Tuple

from .. import cfg as C
from .. import lib as L
from ..cfg import InlineBlock, InlineJump
from ..core import FuncInfo, Repo
from ..inline import flatten

_counter = itertools.count(1)
_cache: Dict[tuple, FuncInfo] = {}
MAX_UNROLL = 24
LOOPS = (ast.For, ast.While, ast.AsyncFor)
SCOPES = (ast.FunctionDef, ast.AsyncFunctionDef, ast.Lambda, ast.ClassDef)


# ------------------------------------------------------------------------------------------------ small AST helpers
def _walk_scope(node: ast.AST):
    """ast.walk that does not enter nested function / class definitions"""
    todo = [node]
    while todo:
        n = todo.pop()
        yield n
        for ch in ast.iter_child_nodes(n):
            if not isinstance(ch, SCOPES):
                todo.append(ch)


def _own_jumps(body: List[ast.stmt]) -> List[ast.stmt]:
    """break / continue statements that belong to the loop whose body this is"""
    out = []

    def rec(stmts):
        for s in stmts:
            if isinstance(s, (ast.Break, ast.Continue)):
                out.append(s)
            if isinstance(s, LOOPS) or isinstance(s, SCOPES):
                if isinstance(s, LOOPS):
                    rec(s.orelse)      # the else branch of an inner loop still belongs to the outer one
                continue
            for fld in ("body", "orelse", "finalbody"):
                sub = getattr(s, fld, None)
                if isinstance(sub, list) and sub and isinstance(sub[0], ast.stmt):
                    rec(sub)
            if isinstance(s, ast.Try):
                for h in s.handlers:
                    rec(h.body)
            if isinstance(s, ast.Match):
                for c in s.cases:
                    rec(c.body)

    rec(body)
    return out


def _map_blocks(node: ast.AST, fn) -> None:
    """apply fn(list of statements) -> list of statements to every statement list below node (innermost first)"""
    for fld in ("body", "orelse", "finalbody"):
        sub = getattr(node, fld, None)
        if isinstance(sub, list) and sub and isinstance(sub[0], ast.stmt):
            for s in sub:
                if not isinstance(s, SCOPES):
                    _map_blocks(s, fn)
            setattr(node, fld, fn(sub))
    if isinstance(node, ast.Try):
        for h in node.handlers:
            for s in h.body:
                _map_blocks(s, fn)
            h.body = fn(h.body)
    if isinstance(node, ast.Match):
        for c in node.cases:
            for s in c.body:
                _map_blocks(s, fn)
            c.body = fn(c.body)


class _Renamer(ast.NodeTransformer):
    def __init__(self, mapping: Dict[str, str]):
        self.m = mapping

    def visit_Name(self, n):
        if n.id in self.m:
            return ast.copy_location(ast.Name(id=self.m[n.id], ctx=n.ctx), n)
        return n


def _jump(label: str, at: ast.AST) -> ast.stmt:
    j = ast.copy_location(InlineJump(), at)
    j.label = label
    return j


def _block(label: str, body: List[ast.stmt], at: ast.AST) -> ast.stmt:
    b = ast.copy_location(InlineBlock(test=ast.Constant(value=True), body=body or [ast.Pass()], orelse=[]), at)
    b.label = label
    return b


class _JumpRewriter(ast.NodeTransformer):
    """replace the given break / continue / return statements (by identity) with InlineJumps"""

    def __init__(self, repl: Dict[int, str]):
        self.repl = repl

    def generic_visit(self, node):
        if isinstance(node, SCOPES):
            return node
        return super().generic_visit(node)

    def visit(self, node):
        if id(node) in self.repl:
            return _jump(self.repl[id(node)], node)
        return super().visit(node)


# ------------------------------------------------------------------------------------------------ generator expansion
def _resolve_generator(repo: Repo, f: FuncInfo, call: ast.Call) -> Optional[Tuple[FuncInfo, bool]]:
    """(generator function of the repository, receiver is self) for `self.g(..)` / `g(..)` / `Class.g(..)`"""
    fn = call.func
    callee = None
    recv_self = False
    if isinstance(fn, ast.Attribute) and isinstance(fn.value, ast.Name):
        if f.cls and fn.value.id == (f.self_name or "self"):
            callee = repo.find_method(f.cls, fn.attr)
            recv_self = True
        elif fn.value.id in repo.classes:
            callee = repo.find_method(fn.value.id, fn.attr)
            if callee is not None and not callee.static:
                callee = None
        elif f.cls and f.static and fn.value.id == f.cls:
            callee = repo.find_method(f.cls, fn.attr)
    elif isinstance(fn, ast.Name):
        r = repo.lookup(f.mod.name, fn.id)
        if r and r[0] == "func":
            callee = repo.funcs.get(f"{repo.mods[r[2]].short}::{fn.id}")
    if callee is None or callee.qn == f.qn:
        return None
    if any(isinstance(a, ast.Starred) for a in call.args) or any(k.arg is None for k in call.keywords):
        return None
    if not any(isinstance(n, (ast.Yield, ast.YieldFrom)) for n in _walk_scope(callee.node) if n is not callee.node):
        return None
    if callee.node.decorator_list and any(not (isinstance(d, ast.Name) and d.id == "staticmethod") for d in callee.node.decorator_list):
        return None
    if callee.is_method and not recv_self:
        return None
    return callee, recv_self


def _expand_one(repo: Repo, f: FuncInfo, loop: ast.For, stack: Tuple[str, ...]) -> Optional[List[ast.stmt]]:
    if not isinstance(loop, ast.For) or loop.orelse or not isinstance(loop.iter, ast.Call):
        return None
    res = _resolve_generator(repo, f, loop.iter)
    if res is None:
        return None
    callee, recv_self = res
    if callee.qn in stack:
        return None
    gen = flatten(repo, callee)
    gfn = copy.deepcopy(gen.node)
    _expand_in(repo, gen, gfn, stack + (callee.qn,))
    body = list(gfn.body)
    if body and isinstance(body[0], ast.Expr) and isinstance(body[0].value, ast.Constant) and isinstance(body[0].value.value, str):
        body = body[1:]
    # every yield must be a statement of its own
    ystmts = [s for s in _walk_scope(gfn) if isinstance(s, ast.Expr) and isinstance(s.value, (ast.Yield, ast.YieldFrom))]
    yexprs = [n for n in _walk_scope(gfn) if isinstance(n, (ast.Yield, ast.YieldFrom))]
    if len(ystmts) != len(yexprs) or not ystmts:
        return None
    n = next(_counter)
    glabel = f"g{n}:{callee.qn}"
    # locals of the generator get fresh names, parameters are bound by assignments
    names: Set[str] = set()
    for x in _walk_scope(gfn):
        if isinstance(x, ast.Name) and isinstance(x.ctx, ast.Store):
            names.add(x.id)
        elif isinstance(x, ast.ExceptHandler) and x.name:
            names.add(x.name)
    params = list(callee.params)
    names |= set(params)
    mapping = {x: f"{x}__g{n}" for x in names}
    if callee.is_method:
        mapping[params[0]] = f.self_name or "self"
        params = params[1:]
    bound: Dict[str, ast.AST] = {}
    call = loop.iter
    for p_, a in zip(params, call.args):
        bound[p_] = a
    for k in call.keywords:
        bound[k.arg] = k.value
    pre: List[ast.stmt] = []
    for p_ in params:
        if p_ in bound:
            v = copy.deepcopy(bound[p_])
        elif p_ in callee.defaults:
            v = copy.deepcopy(callee.defaults[p_])
        else:
            return None
        pre.append(ast.copy_location(ast.Assign(targets=[ast.Name(id=mapping[p_], ctx=ast.Store())], value=v, lineno=call.lineno), call))
    # the generator's returns leave the whole expansion
    rets = {id(s): glabel for s in _walk_scope(gfn) if isinstance(s, ast.Return)}
    holder = ast.Module(body=body, type_ignores=[])
    if rets:
        holder = _JumpRewriter(rets).visit(holder)
    holder = _Renamer(mapping).visit(holder)
    own = _own_jumps(loop.body)
    if any(isinstance(o, ast.Break) for o in own) and any(isinstance(y, ast.YieldFrom) for y in yexprs):
        return None

    def body_copy(at: ast.AST) -> List[ast.stmt]:
        k = next(_counter)
        blabel = f"b{k}:{callee.qn}"
        tmp = ast.Module(body=copy.deepcopy(loop.body), type_ignores=[])
        repl = {}
        for o, c_ in zip(_own_jumps(loop.body), _own_jumps(tmp.body)):
            repl[id(c_)] = glabel if isinstance(o, ast.Break) else blabel
        if repl:
            tmp = _JumpRewriter(repl).visit(tmp)
            return [_block(blabel, tmp.body, at)]
        return tmp.body

    def replace(stmts: List[ast.stmt]) -> List[ast.stmt]:
        out: List[ast.stmt] = []
        for s in stmts:
            if isinstance(s, ast.Expr) and isinstance(s.value, ast.Yield):
                val = s.value.value if s.value.value is not None else ast.Constant(value=None)
                out.append(ast.copy_location(ast.Assign(targets=[copy.deepcopy(loop.target)], value=val, lineno=s.lineno), s))
                out.extend(body_copy(s))
            elif isinstance(s, ast.Expr) and isinstance(s.value, ast.YieldFrom):
                out.append(ast.copy_location(ast.For(target=copy.deepcopy(loop.target), iter=s.value.value, body=copy.deepcopy(loop.body), orelse=[],
                                                     lineno=s.lineno), s))
            else:
                out.append(s)
        return out

    _map_blocks(holder, replace)
    stmts = pre + list(holder.body)
    if rets or any(isinstance(o, ast.Break) for o in own):
        stmts = [_block(glabel, stmts, loop)]
    for s in stmts:
        ast.fix_missing_locations(s)
    return stmts


def _expand_in(repo: Repo, f: FuncInfo, fn: ast.AST, stack: Tuple[str, ...]) -> bool:
    changed = [False]

    def rewrite(stmts: List[ast.stmt]) -> List[ast.stmt]:
        out: List[ast.stmt] = []
        for s in stmts:
            new = _expand_one(repo, f, s, stack) if isinstance(s, ast.For) else None
            if new is None:
                out.append(s)
            else:
                changed[0] = True
                out.extend(new)
        return out

    _map_blocks(fn, rewrite)
    return changed[0]


# ------------------------------------------------------------------------------------------------ constant loops
def _const_node(v) -> Optional[ast.expr]:
    if isinstance(v, (list, tuple)):
        elts = [_const_node(x) for x in v]
        if any(e is None for e in elts):
            return None
        return ast.Tuple(elts=elts, ctx=ast.Load())
    if isinstance(v, (str, int, float, bool, bytes)) or v is None:
        return ast.Constant(value=v)
    return None


def _sequence_elements(repo: Repo, f: FuncInfo, it: ast.AST, single_defs: Dict[str, ast.AST], stored: Set[str], depth: int = 0) -> Optional[List[ast.expr]]:
    """element expressions of a literal / constant sequence (None when the iterable is not one)"""
    if depth > 4:
        return None
    if isinstance(it, (ast.Tuple, ast.List)):
        if any(isinstance(e, ast.Starred) for e in it.elts):
            return None
        return [copy.deepcopy(e) for e in it.elts]
    if isinstance(it, ast.Call) and isinstance(it.func, ast.Name) and it.func.id in ("list", "tuple", "iter") and len(it.args) == 1 and not it.keywords:
        return _sequence_elements(repo, f, it.args[0], single_defs, stored, depth + 1)
    if isinstance(it, ast.Name):
        if it.id in single_defs:
            return _sequence_elements(repo, f, single_defs[it.id], single_defs, stored, depth + 1)
        if it.id in stored or it.id in f.params:
            return None
        ok, v = repo.const_value(f.mod.name, it.id)
        if ok and isinstance(v, list):
            nodes = [_const_node(x) for x in v]
            if all(x is not None for x in nodes):
                return nodes
    return None


def _stored_names(fn: ast.AST) -> Set[str]:
    return {n.id for n in _walk_scope(fn) if isinstance(n, ast.Name) and isinstance(n.ctx, (ast.Store, ast.Del))}


def _single_literal_defs(fn: ast.AST) -> Dict[str, ast.AST]:
    """local names assigned exactly once, to a literal sequence (`fields = ("a", "b")`)"""
    count: Dict[str, int] = {}
    val: Dict[str, ast.AST] = {}
    for n in _walk_scope(fn):
        if isinstance(n, ast.Name) and isinstance(n.ctx, (ast.Store, ast.Del)):
            count[n.id] = count.get(n.id, 0) + 1
        if isinstance(n, ast.Assign) and len(n.targets) == 1 and isinstance(n.targets[0], ast.Name) and isinstance(n.value, (ast.Tuple, ast.List)):
            val[n.targets[0].id] = n.value
        if isinstance(n, ast.AnnAssign) and isinstance(n.target, ast.Name) and isinstance(n.value, (ast.Tuple, ast.List)):
            val[n.target.id] = n.value
    mutated = {n.func.value.id for n in _walk_scope(fn) if isinstance(n, ast.Call) and isinstance(n.func, ast.Attribute) and isinstance(n.func.value, ast.Name)
               and n.func.attr in L.CONTENT_ADDERS + ("remove", "pop", "clear", "sort", "reverse")}
    return {k: v for k, v in val.items() if count.get(k) == 1 and k not in mutated}


def _unroll(repo: Repo, f: FuncInfo, fn: ast.AST) -> bool:
    changed = [False]
    singles = _single_literal_defs(fn)
    stored = _stored_names(fn)

    def rewrite(stmts: List[ast.stmt]) -> List[ast.stmt]:
        out: List[ast.stmt] = []
        for s in stmts:
            elts = None
            if isinstance(s, ast.For) and not s.orelse and not _own_jumps(s.body):
                elts = _sequence_elements(repo, f, s.iter, singles, stored)
            if elts is None or len(elts) > MAX_UNROLL:
                out.append(s)
                continue
            changed[0] = True
            for e in elts:
                a = ast.copy_location(ast.Assign(targets=[copy.deepcopy(s.target)], value=e, lineno=s.lineno), s)
                ast.fix_missing_locations(a)
                out.append(a)
                out.extend(copy.deepcopy(s.body))
        return out

    _map_blocks(fn, rewrite)
    return changed[0]


# ------------------------------------------------------------------------------------------------ getattr / setattr with constant names
def _const_str(repo: Repo, f: FuncInfo, g: C.CFG, rd: C.ReachingDefs, e: ast.AST, at: Optional[int], depth: int = 0) -> Optional[str]:
    if depth > 6:
        return None
    if isinstance(e, ast.Constant):
        return e.value if isinstance(e.value, str) else None
    if not isinstance(e, ast.Name) or at is None:
        return None
    defs = rd.defs_reaching(at, e.id)
    if not defs:
        ok, v = repo.const_value(f.mod.name, e.id)
        return v if ok and isinstance(v, str) else None
    vals = set()
    for d in defs:
        st = g.stmt[d]
        v = None
        if isinstance(st, ast.Assign) and len(st.targets) == 1:
            v = _paired(st.targets[0], st.value, e.id)
        elif isinstance(st, ast.AnnAssign) and isinstance(st.target, ast.Name) and st.value is not None:
            v = st.value
        if v is None:
            return None
        vals.add(_const_str(repo, f, g, rd, v, d, depth + 1))
    return vals.pop() if len(vals) == 1 else None


def _paired(target: ast.AST, value: ast.AST, name: str) -> Optional[ast.AST]:
    if isinstance(target, ast.Name):
        return value if target.id == name else None
    if isinstance(target, (ast.Tuple, ast.List)) and isinstance(value, (ast.Tuple, ast.List)) and len(target.elts) == len(value.elts) \
            and not any(isinstance(x, ast.Starred) for x in list(target.elts) + list(value.elts)):
        for t, v in zip(target.elts, value.elts):
            if name in C.target_names(t):
                return _paired(t, v, name)
    return None


def _attr_calls(repo: Repo, f: FuncInfo, fn: ast.FunctionDef) -> bool:
    g = C.build(fn.body)
    rd = C.ReachingDefs(g, f.params)
    where: Dict[int, int] = {}
    for n in g.nodes():
        st = g.stmt[n]
        h = C.header(st) if st is not None else None
        if h is not None:
            for sub in ast.walk(h):
                where[id(sub)] = n
    changed = [False]
    comp_vars: Set[str] = set()
    for x in _walk_scope(fn):
        if isinstance(x, ast.comprehension):
            comp_vars |= C.target_names(x.target)

    class T(ast.NodeTransformer):
        def visit_FunctionDef(self, n):
            return n if n is not fn else self.generic_visit(n)

        visit_Lambda = visit_AsyncFunctionDef = visit_ClassDef = lambda self, n: n

        def visit_Call(self, n):
            at = where.get(id(n))
            self.generic_visit(n)
            if isinstance(n.func, ast.Name) and n.func.id == "getattr" and len(n.args) == 2 and not n.keywords and "getattr" not in f.params:
                name = None if isinstance(n.args[1], ast.Name) and n.args[1].id in comp_vars else _const_str(repo, f, g, rd, n.args[1], at)
                if name is not None and name.isidentifier():
                    changed[0] = True
                    return ast.copy_location(ast.Attribute(value=n.args[0], attr=name, ctx=ast.Load()), n)
            return n

        def visit_Expr(self, s):
            at = where.get(id(s.value))
            self.generic_visit(s)
            c = s.value
            if isinstance(c, ast.Call) and isinstance(c.func, ast.Name) and c.func.id == "setattr" and len(c.args) == 3 and not c.keywords:
                name = None if isinstance(c.args[1], ast.Name) and c.args[1].id in comp_vars else _const_str(repo, f, g, rd, c.args[1], at)
                if name is not None and name.isidentifier():
                    changed[0] = True
                    return ast.copy_location(ast.Assign(targets=[ast.Attribute(value=c.args[0], attr=name, ctx=ast.Store())], value=c.args[2],
                                                        lineno=s.lineno), s)
            return s

    T().visit(fn)
    return changed[0]


# ------------------------------------------------------------------------------------------------ entry
def normalised(repo: Repo, spec: str) -> FuncInfo:
    raw = repo.func(spec)
    key = (id(repo), raw.qn, id(raw.node))
    if key in _cache:
        return _cache[key]
    # helpers defined next to the anchor are part of the same unit whether or not their name starts with an underscore
    also = {f.name for f in repo.all_funcs() if f.mod is raw.mod and f.qn != raw.qn and not (f.name.startswith("__") and f.name.endswith("__"))}
    flat = L.fn(repo, spec, also=also)
    fn = copy.deepcopy(flat.node)
    changed = False
    try:
        for _ in range(3):
            step = _expand_in(repo, flat, fn, (raw.qn,))
            step = _unroll(repo, flat, fn) or step
            ast.fix_missing_locations(fn)
            step = _attr_calls(repo, flat, fn) or step
            changed = changed or step
            if not step:
                break
    except (RecursionError, KeyError, IndexError, AttributeError, TypeError, ValueError):
        changed = False      # a construct the rewrites do not handle: analyse the flattened function as it is
    if not changed:
        _cache[key] = flat
        return flat
    ast.fix_missing_locations(fn)
    out = FuncInfo(flat.mod, flat.cls, fn, static=flat.static)
    out.qn = flat.qn
    out.flat_of = getattr(flat, "flat_of", raw)
    out.inlined = list(getattr(flat, "inlined", []))
    _cache[key] = out
    return out
