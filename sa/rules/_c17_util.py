"""Local normalisations for C17 (candidates for promotion into sa/inline.py):

`normalised(repo, spec)` = `L.fn(repo, spec)` (private helpers inlined) and on top of that

  * generator helpers consumed by a `for` loop are expanded in place:  `for x in self._iter(..): BODY`  becomes the generator's body
    with every `yield e` replaced by `x = e; BODY` (`continue` / `break` of the consumer and `return` of the generator become
    InlineJumps to the end of the BODY copy / of the whole expansion);
  * loops over a literal or constant sequence are unrolled (`for name in FIELDS: ...`, `for dst, src in ((a.x, b.x), ..): ...`);
  * `getattr(o, name)` / `setattr(o, name, v)` whose name is a string constant at that point (literal, module constant, the single
    reaching definition of a local / inlined parameter) become `o.<name>` / `o.<name> = v`;
  * a starred literal sequence is its elements: `Rec(*(a, b))` -> `Rec(a, b)`, `[*(a, b), c]` -> `[a, b, c]`;
  * a comprehension over a literal sequence is written out where all of its elements are consumed at once
    (`x, y = (E(v) for v in (a, b))` -> `x, y = (E(a), E(b))`, list / set comprehensions, arguments of tuple / list / set / update ..);
  * a generator helper consumed by a call inside an INLINED helper (the flattener does this only for the anchor's own body):
    `X.update(g(..))` / `X.extend(g(..))` -> loop adding one element at a time, then expanded like any loop over a generator helper;
    in other expressions `g(..)` -> generator expression when g is a plain nest of `for` / `if` around one `yield`;
  * a private helper that is one `return <expression>` is that expression wherever it is called (comprehension filters included);
  * `attrgetter(*FIELDS)(v)` / `itemgetter(*KEYS)(v)` with a starred module-level table (bound to a module-level or local name or
    written in place) -> `(v.a, v.b, ..)`; `Rec._make(seq)` of a NamedTuple record -> `Rec(*seq)`;
  * loops over `zip(<written-out sequences>)` / `enumerate(<written-out sequence>)` are unrolled like loops over literal tuples;
  * `for .. else` without `break` -> the else branch follows the loop (with `break` over a generator helper: expanded with the else
    branch inside the block the `break` leaves); a loop that only searches (`if C: break` + else branch, or a boolean flag) -> `any(..)`.

`written_out(flat)` applies only the two purely positional rewrites (starred literals, comprehensions over literal sequences); C17.global
hands the functions to the effect analysis in that form.

The library is never imported or executed: everything is an AST -> AST rewrite of a private copy.
"""
from __future__ import annotations

import ast
import copy
import itertools
from typing import Dict, List, Optional, Set, Tuple

from .. import cfg as C
from .. import lib as L
from ..cfg import InlineBlock, InlineJump
from ..core import FuncInfo, Repo
from ..inline import flatten

_counter = itertools.count(1)
_cache: Dict[tuple, FuncInfo] = {}
MAX_UNROLL = 24
LOOPS = (ast.For, ast.While, ast.AsyncFor)
SCOPES = (ast.FunctionDef, ast.AsyncFunctionDef, ast.Lambda, ast.ClassDef)


# ------------------------------------------------------------------------------------------------ small AST helpers
def _walk_scope(node: ast.AST):
    """ast.walk that does not enter nested function / class definitions"""
    todo = [node]
    while todo:
        n = todo.pop()
        yield n
        for ch in ast.iter_child_nodes(n):
            if not isinstance(ch, SCOPES):
                todo.append(ch)


def _own_jumps(body: List[ast.stmt]) -> List[ast.stmt]:
    """break / continue statements that belong to the loop whose body this is"""
    out = []

    def rec(stmts):
        for s in stmts:
            if isinstance(s, (ast.Break, ast.Continue)):
                out.append(s)
            if isinstance(s, LOOPS) or isinstance(s, SCOPES):
                if isinstance(s, LOOPS):
                    rec(s.orelse)      # the else branch of an inner loop still belongs to the outer one
                continue
            for fld in ("body", "orelse", "finalbody"):
                sub = getattr(s, fld, None)
                if isinstance(sub, list) and sub and isinstance(sub[0], ast.stmt):
                    rec(sub)
            if isinstance(s, ast.Try):
                for h in s.handlers:
                    rec(h.body)
            if isinstance(s, ast.Match):
                for c in s.cases:
                    rec(c.body)

    rec(body)
    return out


def _map_blocks(node: ast.AST, fn) -> None:
    """apply fn(list of statements) -> list of statements to every statement list below node (innermost first)"""
    for fld in ("body", "orelse", "finalbody"):
        sub = getattr(node, fld, None)
        if isinstance(sub, list) and sub and isinstance(sub[0], ast.stmt):
            for s in sub:
                if not isinstance(s, SCOPES):
                    _map_blocks(s, fn)
            setattr(node, fld, fn(sub))
    if isinstance(node, ast.Try):
        for h in node.handlers:
            for s in h.body:
                _map_blocks(s, fn)
            h.body = fn(h.body)
    if isinstance(node, ast.Match):
        for c in node.cases:
            for s in c.body:
                _map_blocks(s, fn)
            c.body = fn(c.body)


class _Renamer(ast.NodeTransformer):
    def __init__(self, mapping: Dict[str, str]):
        self.m = mapping

    def visit_Name(self, n):
        if n.id in self.m:
            return ast.copy_location(ast.Name(id=self.m[n.id], ctx=n.ctx), n)
        return n


def _jump(label: str, at: ast.AST) -> ast.stmt:
    j = ast.copy_location(InlineJump(), at)
    j.label = label
    return j


def _block(label: str, body: List[ast.stmt], at: ast.AST) -> ast.stmt:
    b = ast.copy_location(InlineBlock(test=ast.Constant(value=True), body=body or [ast.Pass()], orelse=[]), at)
    b.label = label
    return b


class _JumpRewriter(ast.NodeTransformer):
    """replace the given break / continue / return statements (by identity) with InlineJumps"""

    def __init__(self, repl: Dict[int, str]):
        self.repl = repl

    def generic_visit(self, node):
        if isinstance(node, SCOPES):
            return node
        return super().generic_visit(node)

    def visit(self, node):
        if id(node) in self.repl:
            return _jump(self.repl[id(node)], node)
        return super().visit(node)


# ------------------------------------------------------------------------------------------------ generator expansion
def _resolve_generator(repo: Repo, f: FuncInfo, call: ast.Call) -> Optional[Tuple[FuncInfo, bool]]:
    """(generator function of the repository, receiver is self) for `self.g(..)` / `g(..)` / `Class.g(..)`"""
    fn = call.func
    callee = None
    recv_self = False
    if isinstance(fn, ast.Attribute) and isinstance(fn.value, ast.Name):
        if f.cls and fn.value.id == (f.self_name or "self"):
            callee = repo.find_method(f.cls, fn.attr)
            recv_self = True
        elif fn.value.id in repo.classes:
            callee = repo.find_method(fn.value.id, fn.attr)
            if callee is not None and not callee.static:
                callee = None
        elif f.cls and f.static and fn.value.id == f.cls:
            callee = repo.find_method(f.cls, fn.attr)
    elif isinstance(fn, ast.Name):
        r = repo.lookup(f.mod.name, fn.id)
        if r and r[0] == "func":
            callee = repo.funcs.get(f"{repo.mods[r[2]].short}::{fn.id}")
    if callee is None or callee.qn == f.qn:
        return None
    if any(isinstance(a, ast.Starred) for a in call.args) or any(k.arg is None for k in call.keywords):
        return None
    if not any(isinstance(n, (ast.Yield, ast.YieldFrom)) for n in _walk_scope(callee.node) if n is not callee.node):
        return None
    if callee.node.decorator_list and any(not (isinstance(d, ast.Name) and d.id == "staticmethod") for d in callee.node.decorator_list):
        return None
    if callee.is_method and not recv_self:
        return None
    return callee, recv_self


def _for_else(fn: ast.AST) -> bool:
    """`for .. else: E` / `while .. else: E` whose body has no `break` of its own: E simply follows the loop"""
    changed = [False]

    def rewrite(stmts: List[ast.stmt]) -> List[ast.stmt]:
        out: List[ast.stmt] = []
        for s in stmts:
            if isinstance(s, (ast.For, ast.While)) and s.orelse and not any(isinstance(j, ast.Break) for j in _own_jumps(s.body)):
                tail, s.orelse = list(s.orelse), []
                out.append(s)
                out.extend(tail)
                changed[0] = True
            else:
                out.append(s)
        return out

    _map_blocks(fn, rewrite)
    return changed[0]


def _expand_one(repo: Repo, f: FuncInfo, loop: ast.For, stack: Tuple[str, ...]) -> Optional[List[ast.stmt]]:
    if not isinstance(loop, ast.For) or not isinstance(loop.iter, ast.Call):
        return None
    if loop.orelse:
        # for .. else with a `break`: the else branch runs when the generator is exhausted, a `break` skips it
        inner = copy.copy(loop)
        inner.orelse = []
        k = next(_counter)
        label = f"e{k}:else"
        if any(isinstance(s_, (ast.Yield, ast.YieldFrom)) for s_ in _walk_scope(loop)):
            return None
        tmp = ast.Module(body=copy.deepcopy(inner.body), type_ignores=[])
        repl = {id(c_): label for c_ in _own_jumps(tmp.body) if isinstance(c_, ast.Break)}
        tmp = _JumpRewriter(repl).visit(tmp)
        inner.body = tmp.body
        got = _expand_one(repo, f, inner, stack)
        if got is None:
            return None
        blk = _block(label, got + copy.deepcopy(loop.orelse), loop)
        ast.fix_missing_locations(blk)
        return [blk]
    res = _resolve_generator(repo, f, loop.iter)
    if res is None:
        return None
    callee, recv_self = res
    if callee.qn in stack:
        return None
    gen = flatten(repo, callee)
    gfn = copy.deepcopy(gen.node)
    _expand_in(repo, gen, gfn, stack + (callee.qn,))
    body = list(gfn.body)
    if body and isinstance(body[0], ast.Expr) and isinstance(body[0].value, ast.Constant) and isinstance(body[0].value.value, str):
        body = body[1:]
    # every yield must be a statement of its own
    ystmts = [s for s in _walk_scope(gfn) if isinstance(s, ast.Expr) and isinstance(s.value, (ast.Yield, ast.YieldFrom))]
    yexprs = [n for n in _walk_scope(gfn) if isinstance(n, (ast.Yield, ast.YieldFrom))]
    if len(ystmts) != len(yexprs) or not ystmts:
        return None
    n = next(_counter)
    glabel = f"g{n}:{callee.qn}"
    # locals of the generator get fresh names, parameters are bound by assignments
    names: Set[str] = set()
    for x in _walk_scope(gfn):
        if isinstance(x, ast.Name) and isinstance(x.ctx, ast.Store):
            names.add(x.id)
        elif isinstance(x, ast.ExceptHandler) and x.name:
            names.add(x.name)
    params = list(callee.params)
    names |= set(params)
    mapping = {x: f"{x}__g{n}" for x in names}
    if callee.is_method:
        mapping[params[0]] = f.self_name or "self"
        params = params[1:]
    bound: Dict[str, ast.AST] = {}
    call = loop.iter
    for p_, a in zip(params, call.args):
        bound[p_] = a
    for k in call.keywords:
        bound[k.arg] = k.value
    pre: List[ast.stmt] = []
    for p_ in params:
        if p_ in bound:
            v = copy.deepcopy(bound[p_])
        elif p_ in callee.defaults:
            v = copy.deepcopy(callee.defaults[p_])
        else:
            return None
        pre.append(ast.copy_location(ast.Assign(targets=[ast.Name(id=mapping[p_], ctx=ast.Store())], value=v, lineno=call.lineno), call))
    # the generator's returns leave the whole expansion
    rets = {id(s): glabel for s in _walk_scope(gfn) if isinstance(s, ast.Return)}
    holder = ast.Module(body=body, type_ignores=[])
    if rets:
        holder = _JumpRewriter(rets).visit(holder)
    holder = _Renamer(mapping).visit(holder)
    own = _own_jumps(loop.body)
    if any(isinstance(o, ast.Break) for o in own) and any(isinstance(y, ast.YieldFrom) for y in yexprs):
        return None

    def body_copy(at: ast.AST) -> List[ast.stmt]:
        k = next(_counter)
        blabel = f"b{k}:{callee.qn}"
        tmp = ast.Module(body=copy.deepcopy(loop.body), type_ignores=[])
        repl = {}
        for o, c_ in zip(_own_jumps(loop.body), _own_jumps(tmp.body)):
            repl[id(c_)] = glabel if isinstance(o, ast.Break) else blabel
        if repl:
            tmp = _JumpRewriter(repl).visit(tmp)
            return [_block(blabel, tmp.body, at)]
        return tmp.body

    def replace(stmts: List[ast.stmt]) -> List[ast.stmt]:
        out: List[ast.stmt] = []
        for s in stmts:
            if isinstance(s, ast.Expr) and isinstance(s.value, ast.Yield):
                val = s.value.value if s.value.value is not None else ast.Constant(value=None)
                out.append(ast.copy_location(ast.Assign(targets=[copy.deepcopy(loop.target)], value=val, lineno=s.lineno), s))
                out.extend(body_copy(s))
            elif isinstance(s, ast.Expr) and isinstance(s.value, ast.YieldFrom):
                out.append(ast.copy_location(ast.For(target=copy.deepcopy(loop.target), iter=s.value.value, body=copy.deepcopy(loop.body), orelse=[],
                                                     lineno=s.lineno), s))
            else:
                out.append(s)
        return out

    _map_blocks(holder, replace)
    stmts = pre + list(holder.body)
    if rets or any(isinstance(o, ast.Break) for o in own):
        stmts = [_block(glabel, stmts, loop)]
    for s in stmts:
        ast.fix_missing_locations(s)
    return stmts


def _expand_in(repo: Repo, f: FuncInfo, fn: ast.AST, stack: Tuple[str, ...]) -> bool:
    changed = [False]

    def rewrite(stmts: List[ast.stmt]) -> List[ast.stmt]:
        out: List[ast.stmt] = []
        for s in stmts:
            new = _expand_one(repo, f, s, stack) if isinstance(s, ast.For) else None
            if new is None:
                out.append(s)
            else:
                changed[0] = True
                out.extend(new)
        return out

    _map_blocks(fn, rewrite)
    return changed[0]


# ------------------------------------------------------------------------------------------------ constant loops
def _const_node(v) -> Optional[ast.expr]:
    if isinstance(v, (list, tuple)):
        elts = [_const_node(x) for x in v]
        if any(e is None for e in elts):
            return None
        return ast.Tuple(elts=elts, ctx=ast.Load())
    if isinstance(v, (str, int, float, bool, bytes)) or v is None:
        return ast.Constant(value=v)
    return None


def _sequence_elements(repo: Repo, f: FuncInfo, it: ast.AST, single_defs: Dict[str, ast.AST], stored: Set[str], depth: int = 0) -> Optional[List[ast.expr]]:
    """element expressions of a literal / constant sequence (None when the iterable is not one)"""
    if depth > 4:
        return None
    if isinstance(it, (ast.Tuple, ast.List)):
        if any(isinstance(e, ast.Starred) for e in it.elts):
            return None
        return [copy.deepcopy(e) for e in it.elts]
    if isinstance(it, ast.Call) and isinstance(it.func, ast.Name) and it.func.id in ("list", "tuple", "iter") and len(it.args) == 1 and not it.keywords:
        return _sequence_elements(repo, f, it.args[0], single_defs, stored, depth + 1)
    if isinstance(it, ast.Call) and isinstance(it.func, ast.Name) and it.func.id == "zip" and it.args and it.func.id not in stored \
            and not any(isinstance(a, ast.Starred) for a in it.args) and all(k.arg == "strict" for k in it.keywords):
        # zip of sequences that are written out: the i-th elements go together
        cols = [_sequence_elements(repo, f, a, single_defs, stored, depth + 1) for a in it.args]
        if any(c is None for c in cols) or len({len(c) for c in cols}) != 1:
            return None
        return [ast.Tuple(elts=list(row), ctx=ast.Load()) for row in zip(*cols)]
    if isinstance(it, ast.Call) and isinstance(it.func, ast.Name) and it.func.id == "enumerate" and len(it.args) == 1 and not it.keywords \
            and it.func.id not in stored:
        col = _sequence_elements(repo, f, it.args[0], single_defs, stored, depth + 1)
        if col is None:
            return None
        return [ast.Tuple(elts=[ast.Constant(value=i), e], ctx=ast.Load()) for i, e in enumerate(col)]
    if isinstance(it, ast.Name):
        if it.id in single_defs:
            return _sequence_elements(repo, f, single_defs[it.id], single_defs, stored, depth + 1)
        if it.id in stored or it.id in f.params:
            return None
        ok, v = repo.const_value(f.mod.name, it.id)
        if ok and isinstance(v, list):
            nodes = [_const_node(x) for x in v]
            if all(x is not None for x in nodes):
                return nodes
    return None


def _stored_names(fn: ast.AST) -> Set[str]:
    return {n.id for n in _walk_scope(fn) if isinstance(n, ast.Name) and isinstance(n.ctx, (ast.Store, ast.Del))}


def _single_literal_defs(fn: ast.AST) -> Dict[str, ast.AST]:
    """local names assigned exactly once, to a literal sequence (`fields = ("a", "b")`)"""
    count: Dict[str, int] = {}
    val: Dict[str, ast.AST] = {}
    for n in _walk_scope(fn):
        if isinstance(n, ast.Name) and isinstance(n.ctx, (ast.Store, ast.Del)):
            count[n.id] = count.get(n.id, 0) + 1
        if isinstance(n, ast.Assign) and len(n.targets) == 1 and isinstance(n.targets[0], ast.Name) and isinstance(n.value, (ast.Tuple, ast.List)):
            val[n.targets[0].id] = n.value
        if isinstance(n, ast.AnnAssign) and isinstance(n.target, ast.Name) and isinstance(n.value, (ast.Tuple, ast.List)):
            val[n.target.id] = n.value
    mutated = {n.func.value.id for n in _walk_scope(fn) if isinstance(n, ast.Call) and isinstance(n.func, ast.Attribute) and isinstance(n.func.value, ast.Name)
               and n.func.attr in L.CONTENT_ADDERS + ("remove", "pop", "clear", "sort", "reverse")}
    return {k: v for k, v in val.items() if count.get(k) == 1 and k not in mutated}


def _unroll(repo: Repo, f: FuncInfo, fn: ast.AST) -> bool:
    changed = [False]
    singles = _single_literal_defs(fn)
    stored = _stored_names(fn)

    def rewrite(stmts: List[ast.stmt]) -> List[ast.stmt]:
        out: List[ast.stmt] = []
        for s in stmts:
            elts = None
            if isinstance(s, ast.For) and not s.orelse and not _own_jumps(s.body):
                elts = _sequence_elements(repo, f, s.iter, singles, stored)
            if elts is None or len(elts) > MAX_UNROLL:
                out.append(s)
                continue
            changed[0] = True
            for e in elts:
                a = ast.copy_location(ast.Assign(targets=[copy.deepcopy(s.target)], value=e, lineno=s.lineno), s)
                ast.fix_missing_locations(a)
                out.append(a)
                out.extend(copy.deepcopy(s.body))
        return out

    _map_blocks(fn, rewrite)
    return changed[0]


# ------------------------------------------------------------------------------------------------ starred literals
def _spread_stars(fn: ast.AST) -> bool:
    """`f(*(a, b), c)` -> `f(a, b, c)`;  `[*(a, b), c]` -> `[a, b, c]`  (a starred literal sequence is its elements)"""
    changed = [False]

    def spread(elts: List[ast.expr]) -> List[ast.expr]:
        out: List[ast.expr] = []
        for e in elts:
            if isinstance(e, ast.Starred) and isinstance(e.value, (ast.Tuple, ast.List)):
                changed[0] = True
                out.extend(spread(list(e.value.elts)))
            else:
                out.append(e)
        return out

    for n in _walk_scope(fn):
        if isinstance(n, ast.Call) and any(isinstance(a, ast.Starred) for a in n.args):
            n.args = spread(list(n.args))
        elif isinstance(n, (ast.Tuple, ast.List, ast.Set)) and isinstance(getattr(n, "ctx", ast.Load()), ast.Load) \
                and any(isinstance(a, ast.Starred) for a in n.elts):
            n.elts = spread(list(n.elts))
    return changed[0]


# ------------------------------------------------------------------------------------------------ records and search loops
def _record_make(repo: Repo, fn: ast.AST) -> bool:
    """`Rec._make(seq)` of a NamedTuple record class is `Rec(*seq)`"""
    changed = [False]
    stored = _stored_names(fn)
    for n in _walk_scope(fn):
        if isinstance(n, ast.Call) and isinstance(n.func, ast.Attribute) and n.func.attr == "_make" and isinstance(n.func.value, ast.Name) \
                and len(n.args) == 1 and not n.keywords and not isinstance(n.args[0], ast.Starred) and n.func.value.id not in stored:
            ci = repo.classes.get(n.func.value.id)
            if ci is not None and getattr(ci, "record_kind", None) == "namedtuple":
                n.func = ast.copy_location(ast.Name(id=n.func.value.id, ctx=ast.Load()), n.func)
                n.args = [ast.copy_location(ast.Starred(value=n.args[0], ctx=ast.Load()), n.args[0])]
                changed[0] = True
    return changed[0]


def _loads_after(stmts: List[ast.stmt], names: Set[str]) -> bool:
    return any(isinstance(x, ast.Name) and isinstance(x.ctx, ast.Load) and x.id in names for s in stmts for x in ast.walk(s))


def _search_loops(fn: ast.AST) -> bool:
    """a loop that only looks for an element is the `any(..)` it computes:
         for v in IT:                                   found = False
             if C: break              and               for v in IT:
         else:                                              if C: found = True; break
             E                                          -> found = any(C for v in IT)
         -> if not any(C for v in IT): E
    (C without side effects worth keeping apart: no calls of helpers remain in a flattened test other than methods / builtins)"""
    changed = [False]

    def probe(loop: ast.AST):
        """(test, extra statements of the hit branch) when the loop body is `if C: [flag = True]; break`"""
        if not isinstance(loop, ast.For) or len(loop.body) != 1 or not isinstance(loop.body[0], ast.If) or loop.body[0].orelse:
            return None
        branch = loop.body[0].body
        if not branch or not isinstance(branch[-1], ast.Break):
            return None
        if any(isinstance(x, (ast.Yield, ast.YieldFrom, ast.Await, ast.NamedExpr)) for x in ast.walk(loop.body[0].test)):
            return None
        return loop.body[0].test, branch[:-1]

    def any_of(loop: ast.For) -> ast.expr:
        gen = ast.comprehension(target=copy.deepcopy(loop.target), iter=copy.deepcopy(loop.iter), ifs=[], is_async=0)
        e = ast.Call(func=ast.Name(id="any", ctx=ast.Load()), args=[ast.GeneratorExp(elt=copy.deepcopy(loop.body[0].test), generators=[gen])], keywords=[])
        return ast.copy_location(e, loop)

    def rewrite(stmts: List[ast.stmt]) -> List[ast.stmt]:
        out: List[ast.stmt] = []
        i = 0
        while i < len(stmts):
            s = stmts[i]
            got = probe(s)
            tnames = C.target_names(s.target) if got is not None else set()
            if got is not None and not got[1] and s.orelse and not _loads_after(stmts[i + 1:], tnames) and not _loads_after(s.orelse, tnames):
                new = ast.copy_location(ast.If(test=ast.UnaryOp(op=ast.Not(), operand=any_of(s)), body=list(s.orelse), orelse=[]), s)
                out.append(ast.fix_missing_locations(new))
                changed[0] = True
            elif got is not None and len(got[1]) == 1 and not s.orelse and out and not _loads_after(stmts[i + 1:], tnames) \
                    and isinstance(got[1][0], ast.Assign) and len(got[1][0].targets) == 1 and isinstance(got[1][0].targets[0], ast.Name) \
                    and isinstance(got[1][0].value, ast.Constant) and isinstance(got[1][0].value.value, bool) \
                    and isinstance(out[-1], ast.Assign) and len(out[-1].targets) == 1 and isinstance(out[-1].targets[0], ast.Name) \
                    and out[-1].targets[0].id == got[1][0].targets[0].id and isinstance(out[-1].value, ast.Constant) \
                    and isinstance(out[-1].value.value, bool) and out[-1].value.value is not got[1][0].value.value:
                val: ast.expr = any_of(s)
                if got[1][0].value.value is False:      # flag starts True and is cleared by a hit
                    val = ast.UnaryOp(op=ast.Not(), operand=val)
                new = ast.copy_location(ast.Assign(targets=[ast.Name(id=out[-1].targets[0].id, ctx=ast.Store())], value=val, lineno=s.lineno), s)
                out[-1] = ast.fix_missing_locations(new)
                changed[0] = True
            else:
                out.append(s)
            i += 1
        return out

    _map_blocks(fn, rewrite)
    return changed[0]


# ------------------------------------------------------------------------------------------------ comprehensions over literal sequences
_SIMPLE = (ast.Name, ast.Constant)


def _is_simple(e: ast.AST) -> bool:
    """an expression that may be written out several times without changing what is computed"""
    while isinstance(e, ast.Attribute):
        e = e.value
    return isinstance(e, _SIMPLE)


class _Subst(ast.NodeTransformer):
    def __init__(self, mapping: Dict[str, ast.AST]):
        self.m = mapping

    def visit_Name(self, n):
        if isinstance(n.ctx, ast.Load) and n.id in self.m:
            return ast.copy_location(copy.deepcopy(self.m[n.id]), n)
        return n


def _bind_target(target: ast.AST, value: ast.AST, out: Dict[str, ast.AST]) -> bool:
    if isinstance(target, ast.Name):
        out[target.id] = value
        return True
    if isinstance(target, (ast.Tuple, ast.List)) and isinstance(value, (ast.Tuple, ast.List)) and len(target.elts) == len(value.elts) \
            and not any(isinstance(x, ast.Starred) for x in list(target.elts) + list(value.elts)):
        return all(_bind_target(t, v, out) for t, v in zip(target.elts, value.elts))
    return False


def _written_out(comp: ast.AST) -> Optional[List[ast.expr]]:
    """the elements of `E(v) for v in (c1, c2, ..)` (one generator over a literal sequence, no filter): [E(c1), E(c2), ..]"""
    if not isinstance(comp, (ast.ListComp, ast.SetComp, ast.GeneratorExp)) or len(comp.generators) != 1:
        return None
    gen = comp.generators[0]
    if gen.ifs or gen.is_async or not isinstance(gen.iter, (ast.Tuple, ast.List)) or len(gen.iter.elts) > MAX_UNROLL:
        return None
    if any(isinstance(e, ast.Starred) for e in gen.iter.elts):
        return None
    if any(isinstance(x, (ast.NamedExpr, ast.Yield, ast.YieldFrom, ast.Await, ast.Lambda, ast.ListComp, ast.SetComp, ast.DictComp, ast.GeneratorExp))
           for x in ast.walk(comp.elt)):
        return None
    out: List[ast.expr] = []
    for e in gen.iter.elts:
        m: Dict[str, ast.AST] = {}
        if not _bind_target(gen.target, e, m):
            return None
        for name, val in m.items():
            uses = sum(1 for x in ast.walk(comp.elt) if isinstance(x, ast.Name) and x.id == name)
            if uses > 1 and not _is_simple(val):
                return None
        out.append(_Subst(m).visit(copy.deepcopy(comp.elt)))
    return out


_EAGER = ("tuple", "list", "set", "frozenset", "sorted")


def _comps_over_literals(fn: ast.AST) -> bool:
    """a comprehension over a literal sequence is written out where all of its elements are consumed at once: a list / set comprehension
    anywhere, a generator expression that is unpacked (`a, b = (E(v) for v in (x, y))`), starred, or the only argument of
    tuple / list / set / frozenset / sorted / .update / .extend"""
    changed = [False]

    def display(comp, kind=None):
        elts = _written_out(comp)
        if elts is None:
            return None
        changed[0] = True
        if kind is None:
            kind = ast.Set if isinstance(comp, ast.SetComp) else ast.List if isinstance(comp, ast.ListComp) else ast.Tuple
        if kind is ast.Set:
            return ast.copy_location(ast.Set(elts=elts), comp) if elts else None
        return ast.copy_location(kind(elts=elts, ctx=ast.Load()), comp)

    class T(ast.NodeTransformer):
        def visit_FunctionDef(self, n):
            return n if n is not fn else self.generic_visit(n)

        visit_Lambda = visit_AsyncFunctionDef = visit_ClassDef = lambda self, n: n

        def visit_ListComp(self, n):
            self.generic_visit(n)
            return display(n) or n

        visit_SetComp = visit_ListComp

        def visit_Assign(self, n):
            self.generic_visit(n)
            if isinstance(n.value, ast.GeneratorExp) and all(isinstance(t, (ast.Tuple, ast.List)) for t in n.targets):
                n.value = display(n.value) or n.value
            return n

        def visit_Starred(self, n):
            self.generic_visit(n)
            if isinstance(n.value, ast.GeneratorExp) and isinstance(n.ctx, ast.Load):
                n.value = display(n.value) or n.value
            return n

        def visit_Call(self, n):
            self.generic_visit(n)
            name = n.func.id if isinstance(n.func, ast.Name) else n.func.attr if isinstance(n.func, ast.Attribute) else None
            if len(n.args) == 1 and not n.keywords and isinstance(n.args[0], ast.GeneratorExp) and \
                    ((isinstance(n.func, ast.Name) and name in _EAGER) or (isinstance(n.func, ast.Attribute) and name in ("update", "extend"))):
                n.args[0] = display(n.args[0]) or n.args[0]
            return n

    T().visit(fn)
    return changed[0]


# ------------------------------------------------------------------------------------------------ generators consumed by a call
def _simple_generator(repo: Repo, f: FuncInfo, call: ast.Call, stack: Tuple[str, ...]) -> Optional[ast.GeneratorExp]:
    """`g(args)` as a generator expression when the generator function is a nest of `for` / `if` statements around one `yield`"""
    res = _resolve_generator(repo, f, call)
    if res is None:
        return None
    callee, _recv_self = res
    if callee.qn in stack:
        return None
    for cand in (flatten(repo, callee), callee):
        body = list(cand.node.body)
        if body and isinstance(body[0], ast.Expr) and isinstance(body[0].value, ast.Constant) and isinstance(body[0].value.value, str):
            body = body[1:]
        gens: List[ast.comprehension] = []
        elt = None
        while len(body) == 1:
            s = body[0]
            if isinstance(s, ast.For) and not s.orelse:
                gens.append(ast.comprehension(target=copy.deepcopy(s.target), iter=copy.deepcopy(s.iter), ifs=[], is_async=0))
                body = s.body
            elif isinstance(s, ast.If) and not s.orelse and gens and not isinstance(s, InlineBlock):
                gens[-1].ifs.append(copy.deepcopy(s.test))
                body = s.body
            elif isinstance(s, ast.Expr) and isinstance(s.value, ast.Yield) and s.value.value is not None and gens:
                elt = copy.deepcopy(s.value.value)
                break
            else:
                break
        if elt is None:
            continue
        comp = ast.GeneratorExp(elt=elt, generators=gens)
        if any(isinstance(x, (ast.Yield, ast.YieldFrom, ast.NamedExpr, ast.Await)) for x in ast.walk(comp)):
            continue
        params = list(callee.params)
        stored = {x.id for x in ast.walk(comp) if isinstance(x, ast.Name) and isinstance(x.ctx, ast.Store)}
        if stored & set(params):
            continue
        n = next(_counter)
        comp = _Renamer({x: f"{x}__g{n}" for x in stored}).visit(comp)
        m: Dict[str, ast.AST] = {}
        if callee.is_method:
            m[params[0]] = ast.Name(id=f.self_name or "self", ctx=ast.Load())
            params = params[1:]
        bound: Dict[str, ast.AST] = dict(zip(params, call.args))
        for k in call.keywords:
            bound[k.arg] = k.value
        ok = True
        for p_ in params:
            v = bound.get(p_, callee.defaults.get(p_))
            if v is None:
                ok = False
                break
            uses = sum(1 for x in ast.walk(comp) if isinstance(x, ast.Name) and x.id == p_)
            in_first = sum(1 for x in ast.walk(comp.generators[0].iter) if isinstance(x, ast.Name) and x.id == p_)
            # an argument is evaluated once, before the first element is produced: it may be written into the expression when that is
            # where it stays (the first iterable), or when evaluating it again gives the same object
            if not (_is_simple(v) or (uses == 1 and in_first == 1)):
                ok = False
                break
            m[p_] = v
        if not ok:
            continue
        comp = _Subst(m).visit(comp)
        return ast.fix_missing_locations(ast.copy_location(comp, call))
    return None


def _consumed_generators(repo: Repo, f: FuncInfo, fn: ast.AST, stack: Tuple[str, ...]) -> bool:
    """`X.update(g(..))` / `X.extend(g(..))` for a generator helper g become a loop over g(..) that adds one element at a time (which the
    generator expansion then opens); a generator helper called in any other expression becomes a generator expression when it is a
    plain nest of loops and filters"""
    changed = [False]

    def rewrite(stmts: List[ast.stmt]) -> List[ast.stmt]:
        out: List[ast.stmt] = []
        for s in stmts:
            c = s.value if isinstance(s, ast.Expr) else None
            if isinstance(c, ast.Call) and isinstance(c.func, ast.Attribute) and c.func.attr in ("update", "extend") and len(c.args) == 1 and not c.keywords \
                    and _is_simple(c.func.value) and isinstance(c.args[0], ast.Call) and _resolve_generator(repo, f, c.args[0]) is not None \
                    and _resolve_generator(repo, f, c.args[0])[0].qn not in stack:
                n = next(_counter)
                var = f"item__u{n}"
                meth = "add" if c.func.attr == "update" else "append"
                add = ast.Expr(value=ast.Call(func=ast.Attribute(value=copy.deepcopy(c.func.value), attr=meth, ctx=ast.Load()),
                                              args=[ast.Name(id=var, ctx=ast.Load())], keywords=[]))
                loop = ast.For(target=ast.Name(id=var, ctx=ast.Store()), iter=c.args[0], body=[add], orelse=[], lineno=s.lineno)
                out.append(ast.fix_missing_locations(ast.copy_location(loop, s)))
                changed[0] = True
            else:
                out.append(s)
        return out

    _map_blocks(fn, rewrite)

    class T(ast.NodeTransformer):
        def visit_FunctionDef(self, n):
            return n if n is not fn else self.generic_visit(n)

        visit_Lambda = visit_AsyncFunctionDef = visit_ClassDef = lambda self, n: n

        def visit_For(self, n):
            # the iterable of a loop is opened by the generator expansion
            it = n.iter
            self.generic_visit(n)
            n.iter = it
            return n

        def visit_Call(self, n):
            self.generic_visit(n)
            try:
                g_ = _simple_generator(repo, f, n, stack)
            except (KeyError, AttributeError, TypeError, ValueError, IndexError):
                g_ = None
            if g_ is not None:
                changed[0] = True
                return g_
            return n

    T().visit(fn)
    return changed[0]


# ------------------------------------------------------------------------------------------------ helpers that are one expression
_NESTED = (ast.Lambda, ast.ListComp, ast.SetComp, ast.DictComp, ast.GeneratorExp)


def _expression_helper(repo: Repo, f: FuncInfo, mods: List[str], call: ast.Call, stored: Set[str]) -> Optional[Tuple[FuncInfo, Dict[str, ast.AST]]]:
    """(callee, {parameter: argument}) for a call of a helper of the repository whose body is `return <expression>`; `self._h(..)` or `h(..)`"""
    fn_ = call.func
    callee = None
    m: Dict[str, ast.AST] = {}
    if isinstance(fn_, ast.Attribute) and isinstance(fn_.value, ast.Name) and f.cls and f.self_name and fn_.value.id == f.self_name:
        callee = repo.find_method(f.cls, fn_.attr)
    elif isinstance(fn_, ast.Name) and fn_.id not in stored and fn_.id not in f.params:
        for mod in mods:
            r = repo.lookup(mod, fn_.id)
            if r and r[0] == "func":
                callee = repo.funcs.get(f"{repo.mods[r[2]].short}::{fn_.id}")
                break
    if callee is None or callee.qn == f.qn or callee.node.decorator_list and not callee.static:
        return None
    if not ((callee.name.startswith("_") and not callee.name.startswith("__")) or callee.mod is f.mod):
        return None
    a = callee.node.args
    if a.vararg or a.kwarg or any(isinstance(x, ast.Starred) for x in call.args) or any(k.arg is None for k in call.keywords):
        return None
    body = list(callee.node.body)
    if body and isinstance(body[0], ast.Expr) and isinstance(body[0].value, ast.Constant) and isinstance(body[0].value.value, str):
        body = body[1:]
    if len(body) != 1 or not isinstance(body[0], ast.Return) or body[0].value is None:
        return None
    expr = body[0].value
    if any(isinstance(x, (ast.Yield, ast.YieldFrom, ast.Await, ast.NamedExpr)) for x in ast.walk(expr)):
        return None
    params = list(callee.params)
    if callee.is_method:
        if not isinstance(fn_, ast.Attribute):
            return None
        m[params[0]] = fn_.value
        params = params[1:]
    if len(call.args) > len(params):
        return None
    bound: Dict[str, ast.AST] = dict(zip(params, call.args))
    for k in call.keywords:
        if k.arg not in params or k.arg in bound:
            return None
        bound[k.arg] = k.value
    inner = {x.id for x in ast.walk(expr) if isinstance(x, ast.Name) and isinstance(x.ctx, ast.Store)}
    for p_ in params:
        v = bound.get(p_, callee.defaults.get(p_))
        if v is None:
            return None
        uses = sum(1 for x in ast.walk(expr) if isinstance(x, ast.Name) and x.id == p_)
        nested = any(isinstance(c, _NESTED) and any(isinstance(x, ast.Name) and x.id == p_ for x in ast.walk(c)) for c in ast.walk(expr))
        if not _is_simple(v) and (uses > 1 or nested):
            return None
        if inner & {x.id for x in ast.walk(v) if isinstance(x, ast.Name)}:
            return None     # a variable of a comprehension in the helper would capture a name of the argument
        m[p_] = v
    if inner & set(m):
        return None
    return callee, m


def _inline_expression_helpers(repo: Repo, f: FuncInfo, fn: ast.AST, mods: List[str]) -> bool:
    """a call of a private helper that is one `return <expression>` is that expression, wherever the call stands (the flattener leaves such
    calls alone inside comprehension filters and generator expressions of inlined helpers)"""
    changed = [False]
    stored = _stored_names(fn)

    class T(ast.NodeTransformer):
        depth = 0

        def visit_FunctionDef(self, n):
            return n if n is not fn else self.generic_visit(n)

        visit_Lambda = visit_AsyncFunctionDef = visit_ClassDef = lambda self, n: n

        def visit_Call(self, n):
            self.generic_visit(n)
            if self.depth > 4:
                return n
            got = _expression_helper(repo, f, mods, n, stored)
            if got is None:
                return n
            callee, m = got
            expr = copy.deepcopy([s_ for s_ in callee.node.body if isinstance(s_, ast.Return)][0].value)
            expr = _Subst(m).visit(expr)
            if callee.mod.name not in mods:
                mods.append(callee.mod.name)
            for x in ast.walk(expr):
                ast.copy_location(x, n)
            changed[0] = True
            self.depth += 1
            try:
                expr = self.visit(expr)       # helpers called by the helper
            finally:
                self.depth -= 1
            return expr

    T().visit(fn)
    return changed[0]


# ------------------------------------------------------------------------------------------------ attrgetter / itemgetter over constant tables
def _home_modules(repo: Repo, f: FuncInfo) -> List[str]:
    """the module of the analysed function and those of the helpers that were inlined into it (their bodies refer to their own globals)"""
    out = [f.mod.name]
    for qn in getattr(f, "inlined", []) or []:
        fi = repo.funcs.get(qn)
        if fi is not None and fi.mod.name not in out:
            out.append(fi.mod.name)
    return out


def _single_call_defs(fn: ast.AST) -> Dict[str, ast.AST]:
    """local names assigned exactly once, to a call (`read = attrgetter(*FIELDS)`)"""
    count: Dict[str, int] = {}
    val: Dict[str, ast.AST] = {}
    for n in _walk_scope(fn):
        if isinstance(n, ast.Name) and isinstance(n.ctx, (ast.Store, ast.Del)):
            count[n.id] = count.get(n.id, 0) + 1
        if isinstance(n, ast.Assign) and len(n.targets) == 1 and isinstance(n.targets[0], ast.Name) and isinstance(n.value, ast.Call):
            val[n.targets[0].id] = n.value
        if isinstance(n, ast.AnnAssign) and isinstance(n.target, ast.Name) and isinstance(n.value, ast.Call):
            val[n.target.id] = n.value
    return {k: v for k, v in val.items() if count.get(k) == 1}


def _getter(repo: Repo, mods: List[str], e: ast.AST, locals_: Dict[str, ast.AST], stored: Set[str], params: List[str], depth: int = 0):
    """('attrgetter' | 'itemgetter', [constant, ..]) when the expression denotes such a function value whose arguments are constants, also
    given as a starred module-level table (`attrgetter(*FIELDS)`); the value may be bound to a module-level or once-assigned local name"""
    if depth > 3:
        return None
    if isinstance(e, ast.Name):
        if e.id in locals_:
            return _getter(repo, mods, locals_[e.id], {}, stored, params, depth + 1)
        if e.id in stored or e.id in params:
            return None
        for m in mods:
            r = repo.lookup(m, e.id)
            if r and r[0] == "const":
                return _getter(repo, [r[2]], r[1], {}, set(), [], depth + 1)
        return None
    if not (isinstance(e, ast.Call) and not e.keywords and e.args):
        return None
    fn_ = e.func
    fac = None
    if isinstance(fn_, ast.Attribute) and isinstance(fn_.value, ast.Name) and fn_.attr in ("attrgetter", "itemgetter"):
        for m in mods:
            r = repo.lookup(m, fn_.value.id)
            if r and r[0] in ("module", "external") and (r[1] == "operator" or r[1] == ("operator", None) or r[2] == "operator"):
                fac = fn_.attr
    elif isinstance(fn_, ast.Name) and fn_.id in ("attrgetter", "itemgetter") and fn_.id not in stored and fn_.id not in params:
        for m in mods:
            r = repo.lookup(m, fn_.id)
            if r and r[0] == "external" and r[1] == ("operator", fn_.id):
                fac = fn_.id
    if fac is None:
        return None
    keys: List[object] = []
    for a in e.args:
        if isinstance(a, ast.Starred):
            got = None
            for m in mods:
                ok, v = repo.fold(a.value, m)
                if ok and isinstance(v, list):
                    got = v
                    break
            if got is None:
                return None
            keys.extend(got)
        else:
            got1 = None
            for m in mods:
                ok, v = repo.fold(a, m)
                if ok:
                    got1 = (v,)
                    break
            if got1 is None:
                return None
            keys.append(got1[0])
    if not keys or len(keys) > MAX_UNROLL:
        return None
    if fac == "attrgetter" and not all(isinstance(k, str) and all(part.isidentifier() for part in k.split(".")) for k in keys):
        return None
    if fac == "itemgetter" and not all(isinstance(k, (str, int)) and not isinstance(k, bool) for k in keys):
        return None
    return fac, keys


def _apply_getters(repo: Repo, f: FuncInfo, fn: ast.AST, mods: Optional[List[str]] = None) -> bool:
    """`attrgetter(*FIELDS)(v)` -> `(v.a, v.b, ..)`, `itemgetter(*KEYS)(v)` -> `(v[k1], ..)` (one key: the bare access); the flattener
    applies these function values only when their arguments are literals"""
    changed = [False]
    mods = mods if mods is not None else _home_modules(repo, f)
    locals_ = _single_call_defs(fn)
    stored = _stored_names(fn)
    params = list(f.params)

    class T(ast.NodeTransformer):
        def visit_FunctionDef(self, n):
            return n if n is not fn else self.generic_visit(n)

        visit_Lambda = visit_AsyncFunctionDef = visit_ClassDef = lambda self, n: n

        def visit_Call(self, n):
            self.generic_visit(n)
            if len(n.args) != 1 or n.keywords or isinstance(n.args[0], ast.Starred) or not isinstance(n.func, (ast.Name, ast.Call)):
                return n
            got = _getter(repo, mods, n.func, locals_, stored, params)
            if got is None:
                return n
            fac, keys = got
            x = n.args[0]
            if len(keys) > 1 and not _is_simple(x):
                return n

            def one(k):
                if fac == "itemgetter":
                    return ast.Subscript(value=copy.deepcopy(x), slice=ast.Constant(value=k), ctx=ast.Load())
                out = copy.deepcopy(x)
                for part in k.split("."):
                    out = ast.Attribute(value=out, attr=part, ctx=ast.Load())
                return out

            elts = [one(k) for k in keys]
            changed[0] = True
            new = elts[0] if len(elts) == 1 else ast.Tuple(elts=elts, ctx=ast.Load())
            return ast.fix_missing_locations(ast.copy_location(new, n))

    T().visit(fn)
    return changed[0]


# ------------------------------------------------------------------------------------------------ getattr / setattr with constant names
def _const_str(repo: Repo, f: FuncInfo, g: C.CFG, rd: C.ReachingDefs, e: ast.AST, at: Optional[int], depth: int = 0) -> Optional[str]:
    if depth > 6:
        return None
    if isinstance(e, ast.Constant):
        return e.value if isinstance(e.value, str) else None
    if not isinstance(e, ast.Name) or at is None:
        return None
    defs = rd.defs_reaching(at, e.id)
    if not defs:
        ok, v = repo.const_value(f.mod.name, e.id)
        return v if ok and isinstance(v, str) else None
    vals = set()
    for d in defs:
        st = g.stmt[d]
        v = None
        if isinstance(st, ast.Assign) and len(st.targets) == 1:
            v = _paired(st.targets[0], st.value, e.id)
        elif isinstance(st, ast.AnnAssign) and isinstance(st.target, ast.Name) and st.value is not None:
            v = st.value
        if v is None:
            return None
        vals.add(_const_str(repo, f, g, rd, v, d, depth + 1))
    return vals.pop() if len(vals) == 1 else None


def _paired(target: ast.AST, value: ast.AST, name: str) -> Optional[ast.AST]:
    if isinstance(target, ast.Name):
        return value if target.id == name else None
    if isinstance(target, (ast.Tuple, ast.List)) and isinstance(value, (ast.Tuple, ast.List)) and len(target.elts) == len(value.elts) \
            and not any(isinstance(x, ast.Starred) for x in list(target.elts) + list(value.elts)):
        for t, v in zip(target.elts, value.elts):
            if name in C.target_names(t):
                return _paired(t, v, name)
    return None


def _attr_calls(repo: Repo, f: FuncInfo, fn: ast.FunctionDef) -> bool:
    g = C.build(fn.body)
    rd = C.ReachingDefs(g, f.params)
    where: Dict[int, int] = {}
    for n in g.nodes():
        st = g.stmt[n]
        h = C.header(st) if st is not None else None
        if h is not None:
            for sub in ast.walk(h):
                where[id(sub)] = n
    changed = [False]
    comp_vars: Set[str] = set()
    for x in _walk_scope(fn):
        if isinstance(x, ast.comprehension):
            comp_vars |= C.target_names(x.target)

    class T(ast.NodeTransformer):
        def visit_FunctionDef(self, n):
            return n if n is not fn else self.generic_visit(n)

        visit_Lambda = visit_AsyncFunctionDef = visit_ClassDef = lambda self, n: n

        def visit_Call(self, n):
            at = where.get(id(n))
            self.generic_visit(n)
            if isinstance(n.func, ast.Name) and n.func.id == "getattr" and len(n.args) == 2 and not n.keywords and "getattr" not in f.params:
                name = None if isinstance(n.args[1], ast.Name) and n.args[1].id in comp_vars else _const_str(repo, f, g, rd, n.args[1], at)
                if name is not None and name.isidentifier():
                    changed[0] = True
                    return ast.copy_location(ast.Attribute(value=n.args[0], attr=name, ctx=ast.Load()), n)
            return n

        def visit_Expr(self, s):
            at = where.get(id(s.value))
            self.generic_visit(s)
            c = s.value
            if isinstance(c, ast.Call) and isinstance(c.func, ast.Name) and c.func.id == "setattr" and len(c.args) == 3 and not c.keywords:
                name = None if isinstance(c.args[1], ast.Name) and c.args[1].id in comp_vars else _const_str(repo, f, g, rd, c.args[1], at)
                if name is not None and name.isidentifier():
                    changed[0] = True
                    return ast.copy_location(ast.Assign(targets=[ast.Attribute(value=c.args[0], attr=name, ctx=ast.Store())], value=c.args[2],
                                                        lineno=s.lineno), s)
            return s

    T().visit(fn)
    return changed[0]


# ------------------------------------------------------------------------------------------------ entry
def _derived(flat: FuncInfo, fn: ast.FunctionDef) -> FuncInfo:
    ast.fix_missing_locations(fn)
    out = FuncInfo(flat.mod, flat.cls, fn, static=flat.static)
    out.qn = flat.qn
    out.flat_of = getattr(flat, "flat_of", flat)
    out.inlined = list(getattr(flat, "inlined", []))
    out.inlined_bodies = getattr(flat, "inlined_bodies", [])
    return out


def _nested_duplicate_labels(fn: ast.AST) -> bool:
    for b in ast.walk(fn):
        if isinstance(b, InlineBlock):
            for x in ast.walk(b):
                if x is not b and isinstance(x, InlineBlock) and getattr(x, "label", None) == getattr(b, "label", None):
                    return True
    return False


def _relabel_nested_blocks(fn: ast.AST) -> bool:
    """an InlineBlock nested in a block of the same label (a body holding a block was copied into itself by an unrolling step): the inner
    block and the jumps that belong to it (innermost scope) get a label of their own -- the CFG builder needs unique open labels"""
    changed = [False]

    def rec(node: ast.AST, open_: Dict[str, str]) -> None:
        for ch in ast.iter_child_nodes(node):
            if isinstance(ch, SCOPES):
                continue
            if isinstance(ch, InlineBlock):
                lab = getattr(ch, "label", None)
                if lab in open_:
                    new = f"{lab}#r{next(_counter)}"
                    ch.label = new
                    changed[0] = True
                    rec(ch, {**open_, lab: new})
                else:
                    rec(ch, {**open_, lab: lab})
            elif isinstance(ch, InlineJump):
                lab = getattr(ch, "label", None)
                if lab in open_ and open_[lab] != lab:
                    ch.label = open_[lab]
            else:
                rec(ch, open_)

    rec(fn, {})
    return changed[0]


_written: Dict[int, Tuple[FuncInfo, FuncInfo]] = {}


def written_out(flat: FuncInfo) -> FuncInfo:
    """a flattened function with starred literals spread and comprehensions over literal sequences written out (nothing else)"""
    hit = _written.get(id(flat.node))
    if hit is not None and hit[0] is flat:
        return hit[1]
    out = flat
    dup = _nested_duplicate_labels(flat.node)
    if dup or any(isinstance(n, (ast.Starred, ast.ListComp, ast.SetComp, ast.GeneratorExp)) for n in _walk_scope(flat.node)):
        fn = copy.deepcopy(flat.node)
        try:
            changed = _relabel_nested_blocks(fn) if dup else False
            changed = _spread_stars(fn) or changed
            changed = _comps_over_literals(fn) or changed
        except (RecursionError, KeyError, IndexError, AttributeError, TypeError, ValueError):
            changed = False
        if changed:
            out = _derived(flat, fn)
    _written[id(flat.node)] = (flat, out)
    return out


def normalised(repo: Repo, spec: str) -> FuncInfo:
    raw = repo.func(spec)
    key = (id(repo), raw.qn, id(raw.node))
    if key in _cache:
        return _cache[key]
    # helpers defined next to the anchor are part of the same unit whether or not their name starts with an underscore
    also = {f.name for f in repo.all_funcs() if f.mod is raw.mod and f.qn != raw.qn and not (f.name.startswith("__") and f.name.endswith("__"))}
    flat = L.fn(repo, spec, also=also)
    fn = copy.deepcopy(flat.node)
    changed = False
    try:
        mods = _home_modules(repo, flat)
        for _ in range(4):
            step = _search_loops(fn)
            step = _for_else(fn) or step
            step = _record_make(repo, fn) or step
            step = _inline_expression_helpers(repo, flat, fn, mods) or step
            step = _apply_getters(repo, flat, fn, mods) or step
            step = _spread_stars(fn) or step
            step = _comps_over_literals(fn) or step
            step = _consumed_generators(repo, flat, fn, (raw.qn,)) or step
            step = _expand_in(repo, flat, fn, (raw.qn,)) or step
            step = _unroll(repo, flat, fn) or step
            ast.fix_missing_locations(fn)
            step = _attr_calls(repo, flat, fn) or step
            changed = changed or step
            if not step:
                break
    except (RecursionError, KeyError, IndexError, AttributeError, TypeError, ValueError):
        changed = False      # a construct the rewrites do not handle: analyse the flattened function as it is
    if not changed:
        _cache[key] = flat
        return flat
    out = _derived(flat, fn)
    out.flat_of = getattr(flat, "flat_of", raw)
    _cache[key] = out
    return out
