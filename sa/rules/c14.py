"""C14 -- states behave as values: equality, copy and serialization agree."""
from __future__ import annotations

import ast
import itertools
from typing import Dict, List, Optional, Set

from .. import cfg as C
from .. import fields as F
from .. import lib as L
from ..core import AnalysisError, FuncInfo, Repo, unparse
from ..effects import effects, fmt_atom
from ..report import Finding, RuleResult

EXPLANATION = (
    "C14.eq: in State.__eq__ every comparison pairs an expression over self with the *same* expression over other (AST equality "
    "modulo the root name), the compared values are order-free collections (sets), both state_predicates and state_fluents are "
    "read, and a finite valuation over (facts equal, fluents equal) shows the result is their conjunction. C14.copy: the effect "
    "analysis shows that State.copy returns fresh containers at both levels whose elements are fresh objects (no alias of the "
    "original reachable down to the fact / fluent objects) and that is_init is propagated; the values that reach the new State's "
    "state_predicates / state_fluents are computed from the same-named field of the original (provenance of the constructor's field "
    "sources: argument pairing); under the flags State.copy passes to the element copy (parameter defaults where it passes nothing) "
    "GroundedPredicate.copy hands self.is_positive on unchanged; constructor field maps show that "
    "GroundedPredicate.copy / PDDLFunction.copy initialise every declared field from the same-named field of the original. "
    "C14.serialize: the serialisation depends on both fields and on is_init (backward slice), the text starts with ':init' exactly "
    "for an initial state (shape of the text under both valuations of is_init), and facts / fluents are written by the element "
    "views __eq__ compares (untyped_representation / state_representation)."
)
UNDECIDED = ("injectivity of serialisation (equal texts only for equal states), the equivalence-relation laws over all pairs, "
             "equality after a print / parse round trip (C10)")


def _resolve_local(f: FuncInfo, e: ast.AST) -> ast.AST:
    """a Name assigned exactly once in f -> its value expression"""
    if isinstance(e, ast.Name):
        defs = [n for n in ast.walk(f.node) if isinstance(n, ast.Assign) and any(isinstance(t, ast.Name) and t.id == e.id for t in n.targets)]
        if len(defs) == 1:
            return defs[0].value
    return e


def _norm_dump(e: ast.AST, root: str) -> str:
    class R(ast.NodeTransformer):
        def visit_Name(self, n):
            if n.id == root:
                return ast.copy_location(ast.Name(id="$ROOT", ctx=n.ctx), n)
            return n

    import copy
    return ast.dump(R().visit(copy.deepcopy(e)))


def _order_free(e: ast.AST) -> bool:
    if isinstance(e, (ast.SetComp, ast.Set)):
        return True
    if isinstance(e, ast.Call) and isinstance(e.func, ast.Name) and e.func.id in ("set", "frozenset", "sorted", "Counter"):
        return True
    return False


def _resolve_chain(f: FuncInfo, p, e: ast.AST, depth: int = 0) -> ast.AST:
    """a local name with one reaching definition -> its value expression (followed through plain copies)"""
    if isinstance(e, ast.Name) and depth < 8:
        try:
            at = p.node_of(e)
        except KeyError:
            return e
        defs = [d for d in p.rd.defs_reaching(at, e.id) if d != p.g.entry]
        if len(defs) == 1:
            st = p.g.stmt[defs[0]]
            if isinstance(st, (ast.Assign, ast.AnnAssign)) and st.value is not None and \
                    (isinstance(st, ast.AnnAssign) or (len(st.targets) == 1 and isinstance(st.targets[0], ast.Name))):
                return _resolve_chain(f, p, st.value, depth + 1)
    return e


def rule_eq(repo: Repo) -> RuleResult:
    r = RuleResult("C14.eq", "State.__eq__ compares the same order-free view of facts and of fluents of both operands; result = conjunction",
                   "two states are equal exactly when they contain the same ground facts and the same fluents with the same values")
    from . import _c10_util as U
    f = U.deep(repo, "State.__eq__")       # helpers / generator helpers / all(zip(..)) over their views written out in place
    p = L.prov(repo, f)
    me, other = f.params[0], f.params[1]
    roots = {"self": me, f"param:{other}": other}
    cmps = [n for n in ast.walk(f.node) if isinstance(n, ast.Compare) and len(n.ops) == 1 and isinstance(n.ops[0], (ast.Eq, ast.NotEq))]
    fields_seen: Dict[str, Set[str]] = {me: set(), other: set()}
    atom_of: Dict[int, str] = {}

    def view(e):
        """(root, {paths without the root}) of the state-derived part of an expression"""
        try:
            tr = p.trace(e)
        except KeyError:
            return None, set()
        rel = {x for x in tr if x[0] in roots and any(s_ in ("attr:state_predicates", "attr:state_fluents") for s_ in x)}
        rs = {x[0] for x in rel}
        # the names of local containers the content went through do not belong to the view
        strip = lambda x: tuple(s_.split("@")[0] if s_.startswith("in:") else s_ for s_ in x[1:])
        if len(rs) != 1:
            return (None if not rs else "both"), {strip(x) for x in rel}
        return rs.pop(), {strip(x) for x in rel}

    for c in cmps:
        (ra, pa), (rb, pb) = view(c.left), view(c.comparators[0])
        if ra is None and rb is None:
            continue
        r.site(L.site(f, c, "comparison"))
        ok = ra in roots and rb in roots and ra != rb and pa == pb
        if not ok:
            r.fail(Finding("C14.eq", f, "asymmetric-comparison", f"{unparse(c)} does not compare the same view of self and other", node=c))
            continue
        a, b = _resolve_chain(f, p, c.left), _resolve_chain(f, p, c.comparators[0])
        if not (_order_free(a) and _order_free(b)):
            r.fail(Finding("C14.eq", f, "order-dependent-comparison", f"{unparse(c)} compares order-dependent collections", node=c))
            continue
        fa = {s_[5:] for x in pa for s_ in x if s_ in ("attr:state_predicates", "attr:state_fluents")}
        for fld in fa:
            fields_seen[me].add(fld)
            fields_seen[other].add(fld)
        key = "facts" if "state_predicates" in fa else ("fluents" if "state_fluents" in fa else None)
        if key and len(fa) == 1:
            atom_of[id(c)] = key if isinstance(c.ops[0], ast.Eq) else "!" + key
        elview = sorted({s_[5:] for x in pa for s_ in x if s_.startswith("attr:") and s_ not in ("attr:state_predicates", "attr:state_fluents")})
        r.ok({"comparison": unparse(c), "fields": sorted(fa), "element_view": elview})
    need = {"state_predicates", "state_fluents"}
    for who in (me, other):
        r.site(f"{f.qn} [fields of {who}]")
        miss = need - fields_seen[who]
        if miss:
            r.fail(Finding("C14.eq", f, f"missing-field:{'/'.join(sorted(miss))}", f"__eq__ never compares {sorted(miss)} of {who}"))
        else:
            r.ok({"operand": who, "fields_compared": sorted(fields_seen[who])})
    # result = facts and fluents
    G = L.Guards(f, lambda e: atom_of.get(id(e)))
    g = G.g
    r.site(f.qn + " [result]")
    bad = []
    table = {}
    for facts, fl in itertools.product([False, True], repeat=2):
        valn = {"facts": facts, "fluents": fl}
        seen = G.reach(valn)
        results = set()
        for n in seen:
            if g.kind[n] == "return":
                rv = g.stmt[n].value
                v = G.value(valn, rv, seen) if rv is not None else None
                results.add(v if isinstance(v, bool) else None)
        table[f"facts_equal={facts},fluents_equal={fl}"] = sorted(map(str, results))
        if results != {facts and fl}:
            bad.append((facts, fl, results))
    if bad:
        r.fail(Finding("C14.eq", f, "result", f"__eq__ result is not (facts equal and fluents equal): {table}"), table)
    else:
        r.ok(table)
    r.require_sites(4)
    return r


def _deep_fresh(eff, s, atom, depth: int, path: str, out: List[str], seen: set):
    root, p = atom
    if root[0] != "fresh":
        out.append(f"{path}: {fmt_atom(atom)}")
        return
    if depth == 0 or root in seen:
        return
    seen = seen | {root}
    for fld, atoms in s.fresh.get(root, {}).items():
        if fld != "[]":
            continue
        for a in atoms:
            _deep_fresh(eff, s, a, depth - 1, path + "[]", out, seen)


def _class_methods(repo: Repo, cname: str) -> Set[str]:
    """the (non-special) methods of a class: a copy method that configures the new object through setters of its own class is analysed
    with those setters in place"""
    return {m for c in repo.mro(cname) if c in repo.classes for m in repo.classes[c].methods
            if not (m.startswith("__") and m.endswith("__")) and m != "copy"}


def _field_sources(repo: Repo, m: FuncInfo, ctor: ast.Call, cname: str) -> Dict[str, List[ast.AST]]:
    """constructor field map plus assignments `alias.fld = e` after the construction, where alias is the variable holding the new object
    or a plain copy of it (the receiver binding of a setter analysed in place)"""
    src = {k: list(v) for k, v in F.constructed_field_sources(repo, m, ctor, cname).items()}
    var = None
    for n in ast.walk(m.node):
        if isinstance(n, (ast.Assign, ast.AnnAssign)) and n.value is ctor:
            tgts = n.targets if isinstance(n, ast.Assign) else [n.target]
            if len(tgts) == 1 and isinstance(tgts[0], ast.Name):
                var = tgts[0].id
    if var:
        al = L.aliases(m, {var})
        for n in ast.walk(m.node):
            if isinstance(n, ast.Assign):
                for t in n.targets:
                    if isinstance(t, ast.Attribute) and isinstance(t.value, ast.Name) and t.value.id in al and not any(n.value is x for x in src.get(t.attr, [])):
                        src.setdefault(t.attr, []).append(n.value)
    return src


def _copy_summary(repo: Repo, eff, f: FuncInfo):
    """the effect summary of State.copy.  The effect analysis reads the flattened function; when the copy is written with generator
    helpers / dict(zip(..)) / dict(<generator>) the summary is recomputed (same analysis, same callee summaries) on the function
    in which those forms are written as the comprehensions they stand for."""
    from . import _c10_util as U
    from ..effects import Summary, _Analyzer
    d = U.deep_of(repo, f)
    s0 = eff.sums[f.qn]
    if d is s0.f or d.node is s0.f.node or getattr(d, "deep_of", None) is None:
        return s0
    try:
        s = Summary(d)
        for _ in range(12):
            a = _Analyzer(eff, s)
            a.run()
            if not a.changed:
                break
    except (AttributeError, TypeError, KeyError, RecursionError):
        return s0
    return s


# (field of the copy, the other container field of a State): the copy's field must be computed from the same-named field of the original
COPY_FIELD_PAIRS = (("state_predicates", "state_fluents"), ("state_fluents", "state_predicates"))


def _check_polarity_as_called(repo: Repo, rid: str, r: RuleResult, f: FuncInfo, pf, m: FuncInfo, p, src: List[ast.AST]) -> None:
    """State.copy copies a fact with `<fact>.copy(<flags>)`: under the truth values of the flags AS PASSED THERE (the default of a flag
    that is not passed) the polarity handed to the constructor is self.is_positive itself"""
    flags = [q for q in m.params if q != m.self_name]
    calls = []
    for c in L.calls_in(f.node):
        if not (isinstance(c.func, ast.Attribute) and c.func.attr == "copy"):
            continue
        try:
            tr = pf.trace(c.func.value)
        except (KeyError, RecursionError):
            continue
        if tr and all(x[0] == "self" and "attr:state_predicates" in x and "elem" in x for x in tr):
            calls.append(c)
    if not calls or not flags:
        return
    raw = repo.func("GroundedPredicate.copy")

    def atom(e):
        if isinstance(e, ast.Name) and isinstance(e.ctx, ast.Load):
            for q in flags:
                if L.is_param(p, e, q):
                    return "flag:" + q
        return None
    G = L.Guards(m, atom)
    for c in calls:
        if any(isinstance(a, ast.Starred) for a in c.args) or any(k.arg is None for k in c.keywords):
            continue
        r.site(f"{m.qn} [polarity as called by {f.qn}]")
        valn: Dict[str, bool] = {}
        shown: Dict[str, object] = {}
        for i, q in enumerate(flags):
            a = L.arg_of(c, raw, q, i)
            if a is None:
                a = raw.defaults.get(q)
                shown[q] = "default " + (unparse(a) if a is not None else "<none>")
            else:
                shown[q] = unparse(a)
            if isinstance(a, ast.Constant) and isinstance(a.value, (bool, int)) or (isinstance(a, ast.Constant) and a.value is None):
                valn["flag:" + q] = bool(a.value)
        if not valn:
            r.ok(n=0)
            continue
        okc = True
        for e in src:
            v = G.value(valn, e)
            kept = isinstance(v, ast.AST) and not isinstance(v, ast.UnaryOp) and p.trace(v, under=G.under(valn)) == {("self", "attr:is_positive")}
            okc = okc and kept
        if okc:
            r.ok({"flags": shown, "polarity": "self.is_positive"})
        else:
            r.fail(Finding(rid, m, "polarity-as-called", f"{f.qn} copies a fact with {unparse(c, 40)} ({shown}): under these flags {m.qn} does not hand "
                           f"self.is_positive on unchanged, so the copy of a state holds facts of the opposite polarity"))


def rule_copy(repo: Repo, rid: str = "C14.copy") -> RuleResult:
    r = RuleResult(rid, "State.copy returns fresh containers with fresh element objects; element copies carry every declared field",
                   "a copy of a state is equal to the original and independent of it")
    from . import _c10_util as U
    eff = effects(repo)
    f = repo.func("State.copy")
    s = _copy_summary(repo, eff, f)
    f = s.f
    r.site(f.qn + " [result object]")
    if not s.ret or any(a[0][0] != "fresh" for a in s.ret):
        r.fail(Finding(rid, f, "returns-alias", f"State.copy may return {sorted(fmt_atom(a) for a in s.ret)} (not a new State)"))
        return r
    r.ok({"returns": "a new State object"})
    for atom in s.ret:
        fm = s.fresh.get(atom[0], {})
        for fld, depth in (("state_predicates", 3), ("state_fluents", 2)):
            r.site(f"{f.qn} [{fld}]")
            if fld not in fm:
                r.fail(Finding(rid, f, f"field-missing:{fld}", f"the copy's {fld} is not initialised"))
                continue
            shared: List[str] = []
            for a in fm[fld]:
                _deep_fresh(eff, s, a, depth, fld, shared, set())
            if shared:
                r.fail(Finding(rid, f, f"shared:{fld}", f"the copy shares objects with the original: {shared[:3]}"))
            else:
                r.ok({"field": fld, "fresh_levels": depth, "shared_with_original": []})
    # is_init propagated
    ctor = [c for c in L.calls_in(f.node) if isinstance(c.func, ast.Name) and c.func.id == "State"]
    # field pairing: what the new State holds as facts is computed from the facts of the original (and from nothing of its fluents), the
    # same for the fluents -- argument pairing at the constructor call, decided by provenance of the values that reach each field
    pf = L.prov(repo, f)
    for c in ctor:
        srcs = F.constructed_field_sources(repo, f, c, "State")
        for fld, other in COPY_FIELD_PAIRS:
            exprs = srcs.get(fld, [])
            if not exprs:
                continue
            r.site(f"{f.qn} [{fld} <- {fld}]")
            origins: Set[str] = set()
            undecided = False
            for e in exprs:
                try:
                    tr = pf.trace(e)
                except (KeyError, RecursionError):
                    undecided = True
                    continue
                for x in tr:
                    if x and x[0] == "self" and len(x) > 1 and x[1] in ("attr:state_predicates", "attr:state_fluents"):
                        origins.add(x[1][5:])
            if other in origins and fld not in origins and not undecided:
                r.fail(Finding(rid, f, f"field-swapped:{fld}", f"the copy's {fld} is computed from the original's {other} (and nothing of its {fld}): "
                               f"the arguments of {unparse(c, 60)} are paired with the wrong fields", node=c))
            elif origins and fld not in origins and not undecided:
                r.fail(Finding(rid, f, f"field-swapped:{fld}", f"the copy's {fld} is computed from {sorted(origins)} of the original, not from its {fld}", node=c))
            else:
                r.ok({"field": fld, "computed_from": sorted(origins) or "not traced"})
    r.site(f.qn + " [is_init]")
    okinit = False
    for c in ctor:
        src = F.constructed_field_sources(repo, f, c, "State").get("is_init", [])
        if any(isinstance(x, ast.Attribute) and x.attr == "is_init" and isinstance(x.value, ast.Name) and x.value.id == f.self_name for x in src):
            okinit = True
    if okinit:
        r.ok({"is_init": "self.is_init"})
    else:
        r.fail(Finding(rid, f, "is_init", "State.copy does not propagate is_init"))
    # element copies: every declared field from the same-named field
    for cname, required, excluded in (
            ("GroundedPredicate", {"name", "signature", "object_mapping", "is_positive"}, {"is_masked": "learner-side flag, not part of a PDDL fact"}),
            ("PDDLFunction", {"name", "signature", "repeating_variables", "stored_value"}, {})):
        m = U.deep(repo, f"{cname}.copy", also=_class_methods(repo, cname))
        p = L.prov(repo, m)
        ctors = [c for c in L.calls_in(m.node) if isinstance(c.func, ast.Name) and c.func.id == cname]
        r.site(m.qn)
        if not ctors:
            r.fail(Finding(rid, m, "no-constructor", f"{cname}.copy does not construct a new {cname}"))
            continue
        src = _field_sources(repo, m, ctors[0], cname)
        missing = []
        for fld in sorted(required):
            names = {f"attr:{fld}"} | ({"attr:value"} if fld == "stored_value" else set())
            ok = False
            for e in src.get(fld, []):
                try:
                    tr = p.trace(e)
                except KeyError:
                    continue
                if any(len(x) >= 2 and x[0] == "self" and x[1] in names for x in tr):
                    ok = True
            if not ok:
                missing.append(fld)
        if missing:
            r.fail(Finding(rid, m, f"field-not-copied:{'/'.join(missing)}", f"{cname}.copy does not initialise {missing} from the original"))
        else:
            r.ok({"class": cname, "fields_copied": sorted(required), "excluded": excluded})
    # polarity: with is_negated=False the polarity is kept (the value handed to the constructor is self.is_positive itself, not its negation)
    m = L.fn(repo, "GroundedPredicate.copy")
    p = L.prov(repo, m)
    r.site(m.qn + " [polarity]")
    ctors = [c for c in L.calls_in(m.node) if isinstance(c.func, ast.Name) and c.func.id == "GroundedPredicate"]
    src = F.constructed_field_sources(repo, m, ctors[0], "GroundedPredicate").get("is_positive", []) if ctors else []
    G = L.Guards(m, lambda e: "neg" if isinstance(e, ast.Name) and isinstance(e.ctx, ast.Load) and L.is_param(p, e, "is_negated") else None)
    valn = {"neg": False}
    okpol = bool(src)
    for e in src:
        v = G.value(valn, e)
        kept = isinstance(v, ast.AST) and not isinstance(v, ast.UnaryOp) and p.trace(v, under=G.under(valn)) == {("self", "attr:is_positive")}
        if not kept:
            okpol = False
    if okpol:
        r.ok({"polarity_when_not_negated": "self.is_positive"})
    else:
        r.fail(Finding(rid, m, "polarity", "GroundedPredicate.copy() (is_negated=False) does not keep the polarity"))
    # ... and that is the valuation State.copy asks for: the flags it passes to the element copy (the parameter defaults where it passes
    # nothing) must select the polarity-keeping branch
    if okpol and src:
        _check_polarity_as_called(repo, rid, r, f, pf, m, p, src)
    r.require_sites(6)
    return r


def rule_serialize(repo: Repo, rid: str = "C14.serialize") -> RuleResult:
    r = RuleResult(rid, "State.serialize depends on state_predicates, state_fluents and is_init", "equal states serialise alike; the label distinguishes the initial state")
    from . import _c10_util as U
    f = U.deep(repo, "State.serialize")
    got = F.slice_fields(repo, f, f.self_name, "State")
    r.site(f.qn)
    need = {"state_predicates", "state_fluents", "is_init"}
    if need <= got:
        r.ok({"fields_in_result": sorted(got)})
    else:
        r.fail(Finding(rid, f, f"field-not-serialised:{'/'.join(sorted(need - got))}", f"serialize() does not depend on {sorted(need - got)}"))
    # the label: ':init' is written for an initial state, ':state' otherwise (decided on the shape of the text under both valuations of is_init)
    from .. import strshape as S
    ev = S.Evaluator(repo, f)
    pf = L.prov(repo, f)

    def is_init_value(value: bool):
        def val(e):
            if isinstance(e, (ast.Attribute, ast.Name)):
                try:
                    tr = pf.trace(e)
                except KeyError:
                    return None
                if tr and all(x == ("self", "attr:is_init") for x in tr):
                    return value
            return None
        return val

    for ret in L.func_returns(f):
        if ret.value is None:
            continue
        try:
            sh = ev.string(ret.value)
            texts = {v: S.render(sh, lambda n: "", is_init_value(v)) for v in (True, False)}
        except (S.NotInterpretable, TypeError, KeyError, RecursionError):
            continue
        head = {v: t.split("{")[0].split("[")[0] for v, t in texts.items()}
        wrong_init = ":state" in head[True] and ":init" not in head[True]
        wrong_state = ":init" in head[False] and ":state" not in head[False]
        if (wrong_init or wrong_state) and ":init" in head[True] + head[False]:
            r.fail(Finding(rid, f, "label", f"serialize() labels an initial state {head[True]!r} and a later state {head[False]!r}", node=ret))
    # the element views used by serialize are the ones __eq__ compares
    e = U.deep(repo, "State.__eq__")
    ser_views = set()
    for fn in (f,):
        for n in ast.walk(fn.node):
            if isinstance(n, ast.Attribute) and n.attr in ("untyped_representation", "state_representation"):
                ser_views.add(n.attr)
    eq_views = {n.attr for n in ast.walk(e.node) if isinstance(n, ast.Attribute) and n.attr in ("untyped_representation", "state_representation")}
    r.site(f.qn + " [views agree with __eq__]")
    # facts are written / compared by their untyped text, fluents by their assignment text (the two element views C14.views vouches for)
    if ser_views == eq_views == {"untyped_representation", "state_representation"}:
        r.ok({"views": sorted(ser_views)})
    else:
        r.fail(Finding(rid, f, "views-differ", f"serialize prints {sorted(ser_views)} while __eq__ compares {sorted(eq_views)}"))
    r.require_sites(2)
    return r


def rule_views(repo: Repo) -> RuleResult:
    """the per-element texts used by __eq__ cover the element's identity: name, arguments (in order), polarity / value"""
    r = RuleResult("C14.views", "fact text = name + object arguments + polarity; fluent text = name + arguments (with repeats) + value",
                   "same facts / same fluents with the same values")
    for cname, prop, need in (("GroundedPredicate", "untyped_representation", {"name", "object_mapping", "is_positive"}),
                              ("PDDLFunction", "state_representation", {"name", "signature", "repeating_variables", "stored_value"})):
        m = L.fn(repo, f"{cname}.{prop}")
        got = F.slice_fields(repo, m, m.self_name, cname)
        r.site(m.qn)
        if need <= got:
            r.ok({"view": m.qn, "depends_on": sorted(got)})
        else:
            r.fail(Finding("C14.views", m, f"view-missing:{'/'.join(sorted(need - got))}", f"{prop} does not depend on {sorted(need - got)}"))
    r.require_sites(2)
    return r


def rules(repo: Repo, tier: str) -> List[RuleResult]:
    from . import c07, c08
    return [rule_eq(repo), rule_copy(repo), rule_serialize(repo), rule_views(repo), c08.rule_valuetext(repo, "C14.valuetext"),
            # a successor state is a value of its own: what a transition stores into it is not shared with the operator (whose next
            # application would rewrite the states it produced before)
            c07.rule_escape(repo, "C14.escape")]
