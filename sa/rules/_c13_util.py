"""Local engine helpers of the C13 rules (candidates for promotion into sa/prov.py / sa/lib.py / sa/strshape.py).

* norm_paths      -- provenance paths with `in:<i>` + `unpack:<j>` / `item:<j>` cancelled (a tuple built by an inlined helper and
                     unpacked by the caller: component i only flows into target i) and `kw:<name>:<callee>` steps of repository
                     functions rewritten to their positional form `arg<i>:<callee>`
* ext_callee      -- the name a called function has where it is defined (`from re import sub as s` -> 'sub', `re.sub` -> 'sub')
* PureEval        -- concrete evaluation of a side-effect free string expression of the analysed function for a *witness* value of
                     its iteration variable (only the AST is interpreted; the operations are str / re operations of the standard
                     library on constants of the source and on the witness)
* render          -- canonical text of a string shape with rule-named holes (uninterpreted pieces that still have a node are holes)
"""
from __future__ import annotations

import ast
import copy
import re
from typing import Callable, Dict, Iterable, List, Optional, Set, Tuple

from .. import strshape as S
from ..core import AnalysisError, FuncInfo, Repo

Path = Tuple[str, ...]


# --------------------------------------------------------------------------------------------------------------- provenance paths
def _digits(step: str, prefix: str) -> Optional[str]:
    if step.startswith(prefix):
        d = step[len(prefix):]
        if d.isdigit():
            return d
    return None


def norm_paths(repo: Repo, paths: Iterable[Path]) -> Set[Path]:
    out: Set[Path] = set()
    for p in paths:
        if p[0] in ("fresh:tuple", "fresh:list") and len(p) > 1 and (_digits(p[1], "unpack:") or _digits(p[1], "item:")):
            continue            # a component of a literal tuple / list is what was put in (the `in:<i>` flows), not the container
        if len(p) > 1 and p[0].startswith("fresh:") and p[1].startswith(("attr:", "unpack:", "item:")):
            fields = record_fields(repo, p[0][6:])
            if fields and (p[1][5:] in fields or _digits(p[1], "unpack:") or _digits(p[1], "item:")):
                continue        # likewise a field of a record built here: the constructor argument flows, not the record
        if len(p) > 1 and p[0] == "const:None" and p[1].startswith(("attr:", "item", "unpack:", "call:")):
            continue            # nothing is read from None (the branch that does is guarded by an `is None` test)
        steps: List[str] = []
        dead = False
        for st in p:
            if steps and st in ("arg0:tuple", "arg0:list") and _digits(steps[-1], "in:") is not None:
                continue        # tuple(<display>) / list(<display>) keeps the positions
            if steps:
                i = _digits(steps[-1], "in:")
                j = _digits(st, "unpack:") or _digits(st, "item:")
                if i is not None and j is not None:
                    if i == j:
                        steps.pop()
                        continue
                    dead = True
                    break
            if steps:
                # a field read from a record (NamedTuple / dataclass / namedtuple) built right before: only the value stored in
                # that field flows on
                made = _record_step(repo, steps[-1])
                if made is not None:
                    fields, fld = made
                    want = None
                    if st.startswith("attr:") and st[5:] in fields:
                        want = st[5:]
                    else:
                        j = _digits(st, "unpack:") or _digits(st, "item:")
                        if j is not None and int(j) < len(fields):
                            want = fields[int(j)]
                    if want is not None:
                        if want == fld:
                            steps.pop()
                            continue
                        dead = True
                        break
            if st.startswith("kw:"):
                _kw, name, callee = st.split(":", 2)
                idx = _param_index(repo, callee, name)
                if idx is not None:
                    st = f"arg{idx}:{callee}"
            steps.append(st)
        if not dead:
            out.add(tuple(steps))
    return out


_rec_cache: Dict[Tuple[int, str], Optional[List[str]]] = {}
_RECORD_BASES = ("NamedTuple", "typing.NamedTuple")
_RECORD_DECORATORS = ("dataclass",)


def record_fields(repo: Repo, cls_name: str) -> Optional[List[str]]:
    """field names, in constructor order, of a record class of the repository: a typing.NamedTuple subclass, a @dataclass without
    its own __init__, or a module-level `X = namedtuple('X', 'a b')` / `NamedTuple('X', [('a', T), ..])`"""
    k = (id(repo), cls_name)
    if k in _rec_cache:
        return _rec_cache[k]
    out: Optional[List[str]] = None
    ci = repo.classes.get(cls_name)
    if ci is not None:
        bases = [b.rsplit(".", 1)[-1] for b in ci.bases]
        decos = []
        for d in ci.node.decorator_list:
            d = d.func if isinstance(d, ast.Call) else d
            decos.append(d.attr if isinstance(d, ast.Attribute) else getattr(d, "id", ""))
        is_nt = any(b == "NamedTuple" for b in bases) or any(_is_named_tuple_base(repo, ci, b) for b in ci.node.bases)
        if (is_nt or any(d in _RECORD_DECORATORS for d in decos)) and "__init__" not in ci.methods and "__new__" not in ci.methods:
            out = [b.target.id for b in ci.node.body if isinstance(b, ast.AnnAssign) and isinstance(b.target, ast.Name)
                   and "ClassVar" not in ast.unparse(b.annotation)]
    else:
        for m in repo.mods.values():
            d = m.defs.get(cls_name)
            if d and d[0] == "const" and isinstance(d[1], ast.Call):
                c = d[1]
                fn = c.func.attr if isinstance(c.func, ast.Attribute) else getattr(c.func, "id", "")
                if fn.lstrip("_") in ("namedtuple", "NamedTuple") and len(c.args) >= 2:
                    spec = c.args[1]
                    if isinstance(spec, ast.Constant) and isinstance(spec.value, str):
                        out = spec.value.replace(",", " ").split()
                    elif isinstance(spec, (ast.List, ast.Tuple)):
                        names = []
                        for x in spec.elts:
                            if isinstance(x, ast.Constant) and isinstance(x.value, str):
                                names.append(x.value)
                            elif isinstance(x, (ast.Tuple, ast.List)) and x.elts and isinstance(x.elts[0], ast.Constant) and isinstance(x.elts[0].value, str):
                                names.append(x.elts[0].value)
                            else:
                                names = None
                                break
                        out = names
                break
    _rec_cache[k] = out or None
    return _rec_cache[k]


def _is_named_tuple_base(repo: Repo, ci, base: ast.AST) -> bool:
    if not isinstance(base, ast.Name):
        return False
    try:
        r = repo.lookup(ci.mod, base.id)
    except Exception:
        return False
    return bool(r and r[0] == "external" and isinstance(r[1], tuple) and r[1][1] == "NamedTuple")


def _record_step(repo: Repo, step: str) -> Optional[Tuple[List[str], str]]:
    """`arg<i>:<Record>` / `kw:<field>:<Record>` -> (fields of the record, the field the value was stored in)"""
    if step.startswith("kw:"):
        _kw, name, callee = step.split(":", 2)
        fields = record_fields(repo, callee)
        return (fields, name) if fields and name in fields else None
    i = arg_index(step)
    if i is not None:
        fields = record_fields(repo, step.split(":", 1)[1])
        return (fields, fields[i]) if fields and i < len(fields) else None
    return None


_pi_cache: Dict[Tuple[int, str, str], Optional[int]] = {}


def _param_index(repo: Repo, callee: str, pname: str) -> Optional[int]:
    k = (id(repo), callee, pname)
    if k not in _pi_cache:
        idx = None
        cands = [f for f in repo.all_funcs() if f.name == callee]
        pos = set()
        for f in cands:
            params = list(f.params)
            if f.is_method:
                params = params[1:]
            if pname in params:
                pos.add(params.index(pname))
        if len(pos) == 1:
            idx = pos.pop()
        _pi_cache[k] = idx
    return _pi_cache[k]


def arg_index(step: str) -> Optional[int]:
    """arg<i>:<callee> -> i"""
    if step.startswith("arg"):
        head = step.split(":", 1)[0][3:]
        if head.isdigit():
            return int(head)
    return None


def is_main_flow(path: Path, carriers: Tuple[str, ...] = ()) -> bool:
    """the value travels as the *primary* operand all the way: receiver of a method or first argument of a call; second and later
    arguments, keyword arguments and the second component of what `carriers` return (their symbol table) are side channels"""
    for i, st in enumerate(path):
        if st.startswith("kw:"):
            return False
        k = arg_index(st)
        if k is not None and k != 0:
            return False
        if st == "unpack:1" and i and path[i - 1].split(":", 1)[-1] in carriers and path[i - 1].startswith("arg"):
            return False
    return True


# --------------------------------------------------------------------------------------------------------------- callee names
def ext_callee(repo: Repo, f: FuncInfo, call: ast.Call) -> str:
    fn = call.func
    if isinstance(fn, ast.Name):
        r = repo.lookup(f.mod.name, fn.id)
        if r and r[0] == "external" and isinstance(r[1], tuple) and r[1][1]:
            return r[1][1]
        return fn.id
    if isinstance(fn, ast.Attribute):
        return fn.attr
    return "<expr>"


# --------------------------------------------------------------------------------------------------------------- concrete evaluation
class NotPure(Exception):
    pass


_STR_METHODS = {"replace", "strip", "lstrip", "rstrip", "lower", "upper", "casefold", "translate", "removeprefix", "removesuffix", "split",
                "rsplit", "join", "isalnum", "isalpha", "isdigit", "isspace", "isidentifier", "startswith", "endswith", "title", "capitalize",
                "swapcase", "format", "partition", "rpartition", "splitlines", "count", "find", "index", "isupper", "islower", "zfill"}
_RE_FUNCS = {"sub", "compile", "escape", "split", "findall", "fullmatch", "match", "search"}
_HIGHER_ORDER = ("filter", "map", "any", "all", "reduce", "filterfalse")
_BUILTINS = {"frozenset": lambda x=(): tuple(sorted(set(x))), "min": min, "max": max, "zip": lambda *a: tuple(zip(*a)),
             "enumerate": lambda x: tuple(enumerate(x)), "any": any, "all": all, "str": str, "len": len, "ord": ord, "chr": chr, "list": list, "tuple": tuple, "sorted": sorted, "reversed": lambda x: list(reversed(x)),
             "bool": bool, "int": int, "repr": repr, "set": lambda x: sorted(set(x))}


class PureEval:
    """evaluates an expression of f for a witness value of the iteration variable(s) it depends on"""

    def __init__(self, repo: Repo, f: FuncInfo, prov, witness: str):
        self.repo, self.f, self.p, self.witness = repo, f, prov, witness
        self.g = prov.g
        self.rd = prov.rd
        self.locals: List[Dict[str, object]] = []
        self.mods: List[str] = [f.mod.name]    # module whose globals are visible (changes inside an interpreted helper)
        self.inputs: Set[str] = set()          # names that were bound to the witness

    # -- names
    def _global(self, name: str):
        r = self.repo.lookup(self.mods[-1], name)
        if r is None:
            if name in ("filter", "map"):
                return ("higher", name)
            if name in _BUILTINS:
                return ("builtin", name)
            raise NotPure(f"name {name} is not resolved")
        if r[0] == "func":
            return ("func", r[1], r[2])
        if r[0] == "module":
            return ("module", r[1])
        if r[0] == "external":
            mod, attr = r[1]
            if mod == "re" and attr in _RE_FUNCS:
                return ("refunc", attr)
            if mod == "string" and attr in ("whitespace", "punctuation", "digits", "ascii_letters"):
                import string
                return getattr(string, attr)
            if (mod, attr) in (("functools", "reduce"), ("itertools", "filterfalse")):
                return ("higher", attr)
            raise NotPure(f"external name {mod}.{attr} is not interpreted")
        if r[0] == "const":
            return self._in_module(r[1], r[2])
        raise NotPure(f"global {name} ({r[0]}) is not a constant")

    def _in_module(self, node: ast.AST, modname: str):
        """a module-level constant: literal, folded text, or a pure expression such as re.compile(<constant>) / str.maketrans(..)"""
        ok, v = self.repo.fold(node, modname)
        if ok:
            return tuple(v) if isinstance(v, list) else v
        if len(self.mods) > 6:
            raise NotPure("constant nesting")
        self.mods.append(modname)
        saved, self.locals = self.locals, []
        try:
            return self.ev(node, 1)
        finally:
            self.locals = saved
            self.mods.pop()

    def _name(self, e: ast.Name, depth: int):
        for scope in reversed(self.locals):
            if e.id in scope:
                return scope[e.id]
        if len(self.mods) > 1:
            return self._global(e.id)          # inside an interpreted helper: not a local of the frame, so a global of its module
        cb = self.p._comp_binding(e)
        if cb == "lambda":
            raise NotPure("lambda parameter")
        if cb is not None:
            if not isinstance(cb.target, ast.Name):
                raise NotPure(f"iteration variable {e.id} is one of several")
            self.inputs.add(e.id)
            return self.witness
        try:
            at = self.p.node_of(e)
        except KeyError:
            raise NotPure(f"{e.id} is not in the control flow graph")
        defs = self.rd.defs_reaching(at, e.id)
        if not defs:
            return self._global(e.id)
        vals = []
        for d in sorted(defs):
            if d == self.g.entry:
                raise NotPure(f"{e.id} is a parameter")
            st = self.g.stmt[d]
            if isinstance(st, ast.For):
                if not (isinstance(st.target, ast.Name) and st.target.id == e.id):
                    raise NotPure(f"iteration variable {e.id} is one of several")
                self.inputs.add(e.id)
                vals.append(self.witness)
            elif isinstance(st, ast.Assign) and len(st.targets) == 1:
                v = self.p._paired(st.targets[0], st.value, e.id)
                if v is None:
                    raise NotPure(f"definition of {e.id} is not a plain assignment")
                vals.append(self.ev(v, depth + 1))
            elif isinstance(st, ast.AnnAssign) and st.value is not None and isinstance(st.target, ast.Name):
                vals.append(self.ev(st.value, depth + 1))
            else:
                raise NotPure(f"definition of {e.id} at a {type(st).__name__}")
        first = vals[0]
        if any(v != first for v in vals[1:]):
            raise NotPure(f"{e.id} has several values")
        return first

    # -- expressions
    def ev(self, e: ast.AST, depth: int = 0):
        if depth > 40:
            raise NotPure("depth")
        E = lambda x: self.ev(x, depth + 1)
        if isinstance(e, ast.Constant):
            return e.value
        if isinstance(e, ast.Name):
            return self._name(e, depth)
        if isinstance(e, ast.JoinedStr):
            out = []
            for v in e.values:
                if isinstance(v, ast.Constant):
                    out.append(str(v.value))
                else:
                    if v.format_spec is not None or v.conversion not in (-1, 115):
                        raise NotPure("format specification")
                    out.append(str(E(v.value)))
            return "".join(out)
        if isinstance(e, ast.BinOp):
            a, b = E(e.left), E(e.right)
            try:
                if isinstance(e.op, ast.Add):
                    return a + b
                if isinstance(e.op, ast.Mult):
                    return a * b
                if isinstance(e.op, ast.Mod) and isinstance(a, str):
                    return a % b
                if isinstance(e.op, ast.BitOr) and isinstance(a, int) and isinstance(b, int):
                    return a | b
            except Exception as ex:
                raise NotPure(str(ex))
            raise NotPure(f"operator {type(e.op).__name__}")
        if isinstance(e, ast.UnaryOp) and isinstance(e.op, ast.Not):
            return not E(e.operand)
        if isinstance(e, ast.UnaryOp) and isinstance(e.op, ast.USub):
            return -E(e.operand)
        if isinstance(e, ast.BoolOp):
            v = None
            for x in e.values:
                v = E(x)
                if isinstance(e.op, ast.And) and not v:
                    return v
                if isinstance(e.op, ast.Or) and v:
                    return v
            return v
        if isinstance(e, ast.IfExp):
            return E(e.body) if E(e.test) else E(e.orelse)
        if isinstance(e, ast.Compare):
            left = E(e.left)
            for op, c in zip(e.ops, e.comparators):
                right = E(c)
                try:
                    ok = {ast.Eq: lambda: left == right, ast.NotEq: lambda: left != right, ast.In: lambda: left in right,
                          ast.NotIn: lambda: left not in right, ast.Lt: lambda: left < right, ast.Gt: lambda: left > right,
                          ast.LtE: lambda: left <= right, ast.GtE: lambda: left >= right, ast.Is: lambda: left is right,
                          ast.IsNot: lambda: left is not right}[type(op)]()
                except Exception as ex:
                    raise NotPure(str(ex))
                if not ok:
                    return False
                left = right
            return True
        if isinstance(e, (ast.Tuple, ast.List, ast.Set)):
            return tuple(E(x) for x in e.elts)
        if isinstance(e, ast.Dict):
            if any(k is None for k in e.keys):
                raise NotPure("dict expansion")
            return {E(k): E(v) for k, v in zip(e.keys, e.values)}
        if isinstance(e, ast.Subscript):
            base = E(e.value)
            try:
                if isinstance(e.slice, ast.Slice):
                    lo = E(e.slice.lower) if e.slice.lower is not None else None
                    hi = E(e.slice.upper) if e.slice.upper is not None else None
                    st = E(e.slice.step) if e.slice.step is not None else None
                    return base[lo:hi:st]
                return base[E(e.slice)]
            except NotPure:
                raise
            except Exception as ex:
                raise NotPure(str(ex))
        if isinstance(e, (ast.ListComp, ast.GeneratorExp, ast.SetComp)):
            return tuple(self._comp(e, 0, depth))
        if isinstance(e, ast.Attribute):
            m = self._module_of(e.value)
            if m == "re" and e.attr in _RE_FUNCS:
                return ("refunc", e.attr)
            if m == "re" and e.attr.isupper() and hasattr(re, e.attr):
                return getattr(re, e.attr)
            if m == "string" and e.attr in ("whitespace", "punctuation", "digits", "ascii_letters"):
                import string
                return getattr(string, e.attr)
            if (m, e.attr) in (("functools", "reduce"), ("itertools", "filterfalse")):
                return ("higher", e.attr)
            if isinstance(e.value, ast.Name) and e.value.id == "str" and e.attr in _STR_METHODS and not any(e.value.id in sc for sc in self.locals):
                return ("strmethod", e.attr)
            if isinstance(e.value, ast.Name) and e.value.id == "str" and e.attr == "maketrans":
                return ("builtin", "maketrans")
            raise NotPure(f"attribute {ast.unparse(e)[:40]}")
        if isinstance(e, ast.Call):
            return self._call(e, depth)
        if isinstance(e, ast.Lambda):
            a = e.args
            if a.vararg or a.kwarg or a.kwonlyargs or a.defaults:
                raise NotPure("lambda signature")
            return ("lambda", e, list(self.locals), list(self.mods))
        raise NotPure(f"{type(e).__name__} expression")

    def _module_of(self, e: ast.AST) -> Optional[str]:
        if isinstance(e, ast.Name) and not any(e.id in sc for sc in self.locals):
            r = self.repo.lookup(self.mods[-1], e.id)
            if r and r[0] == "module":
                return r[1]
        return None

    # -- helpers of the repository: straight-line / if-else functions are interpreted
    def _run(self, fn: ast.FunctionDef, modname: str, args: list, kw: dict, depth: int):
        if depth > 30 or len(self.mods) > 6:
            raise NotPure("helper nesting")
        a = fn.args
        if a.vararg or a.kwarg or a.kwonlyargs:
            raise NotPure(f"signature of {fn.name}")
        params = [x.arg for x in a.posonlyargs + a.args]
        if len(args) > len(params) or any(k not in params for k in kw):
            raise NotPure(f"call of {fn.name}")
        frame: Dict[str, object] = dict(zip(params, args))
        frame.update(kw)
        self.mods.append(modname)
        self.locals.append(frame)
        try:
            for prm, dflt in zip(params[len(params) - len(a.defaults):], a.defaults):
                if prm not in frame:
                    frame[prm] = self.ev(dflt, depth + 1)
            if any(prm not in frame for prm in params):
                raise NotPure(f"call of {fn.name}: missing argument")
            done, v = self._exec(fn.body, frame, depth + 1)
            return v if done else None
        finally:
            self.locals.pop()
            self.mods.pop()

    def _exec(self, stmts, frame: Dict[str, object], depth: int):
        for s in stmts:
            if isinstance(s, ast.Expr) and isinstance(s.value, ast.Constant):
                continue
            if isinstance(s, ast.Pass):
                continue
            if isinstance(s, ast.Assign) and len(s.targets) == 1 and isinstance(s.targets[0], ast.Name):
                frame[s.targets[0].id] = self.ev(s.value, depth)
            elif isinstance(s, ast.AnnAssign) and isinstance(s.target, ast.Name) and s.value is not None:
                frame[s.target.id] = self.ev(s.value, depth)
            elif isinstance(s, ast.AugAssign) and isinstance(s.target, ast.Name) and isinstance(s.op, ast.Add) and s.target.id in frame:
                frame[s.target.id] = frame[s.target.id] + self.ev(s.value, depth)
            elif isinstance(s, ast.If):
                done, v = self._exec(s.body if self.ev(s.test, depth) else s.orelse, frame, depth)
                if done:
                    return True, v
            elif isinstance(s, ast.For) and isinstance(s.target, ast.Name) and not s.orelse:
                src = self.ev(s.iter, depth)
                if not isinstance(src, (str, tuple, list)):
                    raise NotPure("loop over a non-sequence")
                for x in src:
                    frame[s.target.id] = x
                    done, v = self._exec(s.body, frame, depth)
                    if done:
                        return True, v
            elif isinstance(s, ast.Return):
                return True, (self.ev(s.value, depth) if s.value is not None else None)
            else:
                raise NotPure(f"statement {type(s).__name__} in a helper")
        return False, None

    def apply(self, fn, args: list, depth: int):
        """call of an interpreted function value (lambda closure, repository helper, builtin, str method) with evaluated arguments"""
        if depth > 40:
            raise NotPure("depth")
        if isinstance(fn, tuple) and fn:
            if fn[0] == "lambda":
                _k, node, scopes, mods = fn
                params = [x.arg for x in node.args.posonlyargs + node.args.args]
                if len(params) != len(args):
                    raise NotPure("lambda call")
                saved = (self.locals, self.mods)
                self.locals, self.mods = list(scopes) + [dict(zip(params, args))], list(mods)
                try:
                    return self.ev(node.body, depth + 1)
                finally:
                    self.locals, self.mods = saved
            if fn[0] == "func":
                return self._run(fn[1], fn[2], list(args), {}, depth + 1)
            if fn[0] == "builtin" and fn[1] in _BUILTINS:
                res = _BUILTINS[fn[1]](*args)
                return tuple(res) if isinstance(res, list) else res
            if fn[0] == "strmethod" and args and isinstance(args[0], str):
                res = getattr(args[0], fn[1])(*args[1:])
                return tuple(res) if isinstance(res, list) else res
            if fn[0] == "refunc":
                return self._re_result(getattr(re, fn[1])(*args))
        raise NotPure("call of an uninterpreted function value")

    def _higher(self, name: str, args: list, depth: int):
        def seq(x):
            if not isinstance(x, (str, tuple, list)):
                raise NotPure(f"{name} over a non-sequence")
            return x
        if name in ("filter", "filterfalse") and len(args) == 2:
            keep = name == "filter"
            if args[0] is None:
                return tuple(x for x in seq(args[1]) if bool(x) == keep)
            return tuple(x for x in seq(args[1]) if bool(self.apply(args[0], [x], depth + 1)) == keep)
        if name == "map" and len(args) >= 2:
            cols = [seq(a) for a in args[1:]]
            return tuple(self.apply(args[0], list(row), depth + 1) for row in zip(*cols))
        if name == "reduce" and len(args) in (2, 3):
            items = list(seq(args[1]))
            if len(args) == 3:
                acc = args[2]
            elif items:
                acc = items.pop(0)
            else:
                raise NotPure("reduce of an empty sequence")
            for x in items:
                acc = self.apply(args[0], [acc, x], depth + 1)
            return acc
        raise NotPure(f"call of {name}")

    def _comp(self, comp, gi: int, depth: int):
        if gi == len(comp.generators):
            yield self.ev(comp.elt, depth + 1)
            return
        gen = comp.generators[gi]
        if gen.is_async or not isinstance(gen.target, ast.Name):
            raise NotPure("comprehension target")
        src = self.ev(gen.iter, depth + 1)
        if not isinstance(src, (str, tuple, list)):
            raise NotPure("comprehension over a non-sequence")
        for x in src:
            self.locals.append({gen.target.id: x})
            try:
                if all(self.ev(c, depth + 1) for c in gen.ifs):
                    yield from self._comp(comp, gi + 1, depth)
            finally:
                self.locals.pop()

    def _call(self, e: ast.Call, depth: int):
        E = lambda x: self.ev(x, depth + 1)
        if any(isinstance(a, ast.Starred) for a in e.args) or any(k.arg is None for k in e.keywords):
            raise NotPure("argument expansion")
        args = [E(a) for a in e.args]
        kw = {k.arg: E(k.value) for k in e.keywords}
        fn = e.func
        try:
            if isinstance(fn, ast.Attribute):
                try:
                    target = self.ev(fn, depth + 1)          # re.sub / str.maketrans
                except NotPure:
                    target = None
                if target is None:
                    recv = E(fn.value)
                    if isinstance(recv, str) and fn.attr in _STR_METHODS:
                        if fn.attr == "join" and args and not isinstance(args[0], (tuple, list, str)):
                            raise NotPure("join of a non-sequence")
                        res = getattr(recv, fn.attr)(*args, **kw)
                        return tuple(res) if isinstance(res, list) else res
                    if isinstance(recv, re.Pattern) and fn.attr in _RE_FUNCS:
                        return self._re_result(getattr(recv, fn.attr)(*args, **kw))
                    if isinstance(recv, dict) and fn.attr in ("get", "keys", "values", "items"):
                        res = getattr(recv, fn.attr)(*args)
                        return res if fn.attr == "get" else tuple(res)
                    raise NotPure(f"method {fn.attr} on {type(recv).__name__}")
            else:
                target = E(fn)
            if isinstance(target, tuple) and target and target[0] == "higher":
                if kw:
                    raise NotPure("keyword arguments of " + target[1])
                return self._higher(target[1], args, depth + 1)
            if isinstance(target, tuple) and target and target[0] in ("lambda", "strmethod"):
                if kw:
                    raise NotPure("keyword arguments of a function value")
                return self.apply(target, args, depth + 1)
            if isinstance(target, tuple) and target and target[0] == "refunc":
                if any(callable(a) or (isinstance(a, tuple) and a and a[0] in ("lambda", "func", "builtin")) for a in args):
                    raise NotPure("callable replacement")
                return self._re_result(getattr(re, target[1])(*args, **kw))
            if isinstance(target, tuple) and target and target[0] == "func":
                return self._run(target[1], target[2], args, kw, depth + 1)
            if isinstance(target, tuple) and target and target[0] == "builtin":
                if target[1] == "maketrans":
                    return str.maketrans(*args)
                res = _BUILTINS[target[1]](*args, **kw)
                return tuple(res) if isinstance(res, list) else res
        except NotPure:
            raise
        except Exception as ex:
            raise NotPure(f"{ast.unparse(e)[:40]}: {ex}")
        raise NotPure(f"call {ast.unparse(e)[:50]}")

    @staticmethod
    def _re_result(v):
        if isinstance(v, list):
            return tuple(v)
        if isinstance(v, re.Match):
            return True
        return v


# --------------------------------------------------------------------------------------------------------------- shapes
def render(sh, hole: Callable[[ast.AST], str]) -> str:
    if isinstance(sh, S.Lit):
        return sh.text
    if isinstance(sh, S.Hole):
        return "{" + hole(sh.node) + "}"
    if isinstance(sh, S.Unk):
        return "{" + hole(sh.node) + "}" if sh.node is not None else "{?" + sh.why + "}"
    if isinstance(sh, S.Cat):
        return "".join(render(x, hole) for x in sh.parts)
    if isinstance(sh, S.Alt):
        a, b = render(sh.a, hole), render(sh.b, hole)
        return a if a == b else f"<{a}|{b}>"
    if isinstance(sh, S.Rep):
        return "[" + render(sh.body, hole) + "]*"
    raise AnalysisError(f"shape {type(sh).__name__} not rendered")


def squeeze(text: str) -> str:
    """layout-insensitive form of a PDDL template: runs of blanks are one blank, none after '(' / before ')'"""
    t = re.sub(r"\s+", " ", text).strip()
    return t.replace("( ", "(").replace(" )", ")")


# --------------------------------------------------------------------------------------------------------------- static unrolling
_SEQ_WRAPPERS = ("list", "tuple", "iter")
MAX_UNROLL = 16


class _Subst(ast.NodeTransformer):
    """copy of an expression with loads of some names replaced by (copies of) expressions"""

    def __init__(self, mapping: Dict[str, ast.AST]):
        self.mapping = mapping

    def visit_Name(self, n):
        if isinstance(n.ctx, ast.Load) and n.id in self.mapping:
            return ast.copy_location(copy.deepcopy(self.mapping[n.id]), n)
        return n


def _binds(e: ast.AST, names: Set[str]) -> bool:
    """a nested scope of e (comprehension / lambda / walrus) binds one of the names again"""
    for n in ast.walk(e):
        if isinstance(n, ast.Name) and isinstance(n.ctx, ast.Store) and n.id in names:
            return True
        if isinstance(n, ast.arg) and n.arg in names:
            return True
    return False


class Unroller:
    """comprehensions / generator expressions / zip / map / enumerate / reversed over sequences whose length is known from the source
    (tuple and list displays, directly or through a local name bound once) are written out element by element:

        a, b = [f(s, k) for s, k in zip(sides, (True, False))]      with  sides = (x, y)
        a, b = [f(x, True), f(y, False)]

    so that position i of the result is visibly a function of position i of the operands (provenance pairs display elements with
    unpacking targets).  Only the value flow is kept -- laziness and evaluation order are not modelled, nothing is executed."""

    def __init__(self, repo: Repo, f: FuncInfo):
        from .. import cfg as C
        from .. import lib as L
        self.repo = repo
        self.f = f
        self.g = C.cfg_of(f.node)
        self.rd = L.rd_of(f)
        self.changed = False

    def _same_defs(self, e: ast.AST, at_def: int, at_use: int) -> bool:
        for n in ast.walk(e):
            if isinstance(n, ast.Name) and isinstance(n.ctx, ast.Load):
                if self.rd.defs_reaching(at_def, n.id) != self.rd.defs_reaching(at_use, n.id):
                    return False
        return True

    def seq(self, e: ast.AST, at: int, depth: int = 0) -> Optional[List[ast.AST]]:
        """the element expressions of a sequence valued expression evaluated at CFG node `at` (None: length not known)"""
        if depth > 8:
            return None
        if isinstance(e, (ast.Tuple, ast.List)) and isinstance(getattr(e, "ctx", ast.Load()), ast.Load):
            if any(isinstance(x, ast.Starred) for x in e.elts):
                out: List[ast.AST] = []
                for x in e.elts:
                    if isinstance(x, ast.Starred):
                        inner = self.seq(x.value, at, depth + 1)
                        if inner is None:
                            return None
                        out.extend(inner)
                    else:
                        out.append(x)
                return out
            return list(e.elts)
        if isinstance(e, ast.Name) and isinstance(e.ctx, ast.Load):
            defs = self.rd.defs_reaching(at, e.id)
            if not defs:
                return self._module_seq(e.id)
            if len(defs) != 1:
                return None
            d = next(iter(defs))
            if d == self.g.entry:
                return None
            st = self.g.stmt[d]
            v = None
            if isinstance(st, ast.Assign) and len(st.targets) == 1 and isinstance(st.targets[0], ast.Name):
                v = st.value
            elif isinstance(st, ast.AnnAssign) and isinstance(st.target, ast.Name) and st.value is not None:
                v = st.value
            if v is None:
                return None
            if not isinstance(v, (ast.Tuple, ast.GeneratorExp)) and self._mutable_name(e.id):
                return None         # a list that is filled later on
            got = self.seq(v, d, depth + 1)
            if got is None or not all(self._same_defs(x, d, at) for x in got):
                return None
            return got
        if isinstance(e, (ast.ListComp, ast.GeneratorExp)) and len(e.generators) == 1:
            gen = e.generators[0]
            if gen.ifs or gen.is_async:
                return None
            src = self.seq(gen.iter, at, depth + 1)
            if src is None:
                src = self.seq_by_index(gen.iter, at)
            if src is None:
                return None
            out = []
            for x in src:
                m = self._bind(gen.target, x)
                if m is None or _binds(e.elt, set(m)):
                    return None
                out.append(_Subst(m).visit(copy.deepcopy(e.elt)))
            return out
        if isinstance(e, ast.Call) and isinstance(e.func, ast.Attribute) and e.func.attr in ("items", "keys", "values") and not e.args and not e.keywords:
            d = self._dict_display(e.func.value, at)
            if d is None:
                return None
            if e.func.attr == "items":
                return [ast.Tuple(elts=[k, v], ctx=ast.Load()) for k, v in zip(d.keys, d.values)]
            return list(d.keys if e.func.attr == "keys" else d.values)
        if isinstance(e, ast.Call) and isinstance(e.func, ast.Name) and not e.keywords and not any(isinstance(a, ast.Starred) for a in e.args):
            nm = e.func.id
            if self.rd.defs_reaching(at, nm):
                return None         # a local of that name
            if nm in _SEQ_WRAPPERS and len(e.args) == 1:
                return self.seq(e.args[0], at, depth + 1)
            if nm == "reversed" and len(e.args) == 1:
                got = self.seq(e.args[0], at, depth + 1)
                return None if got is None else list(reversed(got))
            if nm == "zip" and e.args:
                cols = [self.seq(a, at, depth + 1) for a in e.args]
                if any(c is None for c in cols):
                    return None
                return [ast.Tuple(elts=list(row), ctx=ast.Load()) for row in zip(*cols)]
            if nm == "enumerate" and len(e.args) == 1:
                got = self.seq(e.args[0], at, depth + 1)
                return None if got is None else [ast.Tuple(elts=[ast.Constant(value=i), x], ctx=ast.Load()) for i, x in enumerate(got)]
            if nm == "map" and len(e.args) >= 2:
                cols = [self.seq(a, at, depth + 1) for a in e.args[1:]]
                if any(c is None for c in cols):
                    return None
                fn = e.args[0]
                out = []
                for row in zip(*cols):
                    if isinstance(fn, ast.Lambda):
                        a = fn.args
                        if a.vararg or a.kwarg or a.kwonlyargs or a.defaults or len(a.posonlyargs + a.args) != len(row):
                            return None
                        m = {p.arg: x for p, x in zip(a.posonlyargs + a.args, row)}
                        body = copy.deepcopy(fn.body)
                        if any(isinstance(n, (ast.Lambda, ast.ListComp, ast.GeneratorExp, ast.SetComp, ast.DictComp, ast.NamedExpr)) for n in ast.walk(body)):
                            return None
                        out.append(_Subst(m).visit(body))
                    elif isinstance(fn, (ast.Name, ast.Attribute)):
                        out.append(ast.Call(func=copy.deepcopy(fn), args=[copy.deepcopy(x) for x in row], keywords=[]))
                    else:
                        return None
                return out
        return None

    # -- sequences whose LENGTH is known although their elements are not (a pair that is rebuilt in every turn of a loop)
    def length(self, e: ast.AST, at: int, assume: Optional[Dict[str, Optional[int]]] = None, depth: int = 0) -> Optional[int]:
        assume = assume or {}
        if depth > 8:
            return None
        if isinstance(e, (ast.Tuple, ast.List)) and isinstance(getattr(e, "ctx", ast.Load()), ast.Load):
            return None if any(isinstance(x, ast.Starred) for x in e.elts) else len(e.elts)
        if isinstance(e, ast.Call) and isinstance(e.func, ast.Name) and e.func.id in ("tuple", "list", "reversed", "sorted", "iter") and len(e.args) == 1 \
                and not e.keywords and not self.rd.defs_reaching(at, e.func.id):
            return self.length(e.args[0], at, assume, depth + 1)
        if isinstance(e, (ast.ListComp, ast.GeneratorExp)) and len(e.generators) == 1 and not e.generators[0].ifs and not e.generators[0].is_async:
            return self.length(e.generators[0].iter, at, assume, depth + 1)
        if isinstance(e, ast.Name) and isinstance(e.ctx, ast.Load):
            if e.id in assume:
                return assume[e.id]
            defs = self.rd.defs_reaching(at, e.id)
            if not defs or self.g.entry in defs or self._mutable_name(e.id):
                return None
            found: Set[int] = set()
            cyclic = []
            for d in defs:
                k = self._def_length(e.id, d, {**assume, e.id: None}, depth)
                if k is None:
                    cyclic.append(d)
                else:
                    found.add(k)
            if len(found) != 1:
                return None
            k = next(iter(found))
            if any(self._def_length(e.id, d, {**assume, e.id: k}, depth) != k for d in cyclic):
                return None
            return k
        return None

    def _def_length(self, name: str, d: int, assume, depth: int) -> Optional[int]:
        st = self.g.stmt[d]
        if isinstance(st, ast.AnnAssign) and isinstance(st.target, ast.Name) and st.value is not None:
            return self.length(st.value, d, assume, depth + 1)
        if not (isinstance(st, ast.Assign) and len(st.targets) == 1):
            return None
        t = st.targets[0]
        if isinstance(t, ast.Name):
            return self.length(st.value, d, assume, depth + 1)
        if isinstance(t, (ast.Tuple, ast.List)):
            stars = [x for x in t.elts if isinstance(x, ast.Starred)]
            if len(stars) == 1 and isinstance(stars[0].value, ast.Name) and stars[0].value.id == name:
                whole = self.length(st.value, d, assume, depth + 1)
                if whole is None:
                    got = self.seq(st.value, d, depth + 1)
                    whole = None if got is None else len(got)
                return None if whole is None or whole < len(t.elts) - 1 else whole - (len(t.elts) - 1)
        return None

    def seq_by_index(self, e: ast.AST, at: int, depth: int = 0) -> Optional[List[ast.AST]]:
        """`S[0], .., S[k-1]` for a local name S (directly, under tuple() / list(), or through a name bound once to that) whose length k is
        known at this point"""
        if depth > 3:
            return None
        if isinstance(e, ast.Call) and isinstance(e.func, ast.Name) and e.func.id in ("tuple", "list", "iter") and len(e.args) == 1 and not e.keywords \
                and not self.rd.defs_reaching(at, e.func.id):
            return self.seq_by_index(e.args[0], at, depth + 1)
        if not (isinstance(e, ast.Name) and isinstance(e.ctx, ast.Load)):
            return None
        defs = self.rd.defs_reaching(at, e.id)
        if len(defs) == 1 and self.g.entry not in defs:
            d = next(iter(defs))
            st = self.g.stmt[d]
            v = st.value if isinstance(st, (ast.Assign, ast.AnnAssign)) and (isinstance(st, ast.AnnAssign) or (len(st.targets) == 1 and isinstance(st.targets[0], ast.Name))) else None
            if isinstance(v, ast.Call) and self._same_defs(v, d, at):
                inner = self.seq_by_index(v, d, depth + 1)
                if inner is not None:
                    return inner
        k = self.length(e, at)
        if k is None or not (0 < k <= MAX_UNROLL):
            return None
        return [ast.Subscript(value=ast.Name(id=e.id, ctx=ast.Load()), slice=ast.Constant(value=i), ctx=ast.Load()) for i in range(k)]

    def _module_const(self, name: str) -> Optional[ast.AST]:
        """the value expression of a module-level constant of the function's own module (bound there, not a local of the function)"""
        if name in self.f.params:
            return None
        try:
            r = self.repo.lookup(self.f.mod.name, name)
        except Exception:
            return None
        if r and r[0] == "const" and r[2] == self.f.mod.name:
            return r[1]
        return None

    def _locals(self) -> Set[str]:
        if not hasattr(self, "_local_names"):
            names = set(self.f.params)
            for n in ast.walk(self.f.node):
                if isinstance(n, ast.Name) and isinstance(n.ctx, (ast.Store, ast.Del)):
                    names.add(n.id)
                elif isinstance(n, ast.arg):
                    names.add(n.arg)
            self._local_names = names
        return self._local_names

    def _global_only(self, e: ast.AST) -> bool:
        """an expression of the module level means the same inside the function (none of its names is a local of the function)"""
        inner = set()
        for n in ast.walk(e):
            if isinstance(n, ast.arg):
                inner.add(n.arg)
            elif isinstance(n, ast.Name) and isinstance(n.ctx, ast.Store):
                inner.add(n.id)
        return not any(isinstance(n, ast.Name) and n.id in self._locals() and n.id not in inner for n in ast.walk(e))

    def _module_seq(self, name: str) -> Optional[List[ast.AST]]:
        v = self._module_const(name)
        if v is not None and self._mutable_name(name):
            return None
        if isinstance(v, (ast.Tuple, ast.List)) and not any(isinstance(x, ast.Starred) for x in v.elts) and all(self._global_only(x) for x in v.elts):
            return list(v.elts)
        if isinstance(v, ast.Dict) and all(k is not None for k in v.keys) and all(self._global_only(k) for k in v.keys):
            return list(v.keys)           # iterating a dict yields its keys
        return None

    def _dict_display(self, e: ast.AST, at: int) -> Optional[ast.Dict]:
        v = self._local_value(e, at) if isinstance(e, ast.Name) else e
        if isinstance(e, ast.Name) and self.rd.defs_reaching(at, e.id) and self._mutable_name(e.id):
            return None
        if isinstance(v, ast.Dict) and all(k is not None for k in v.keys) and len(v.keys) <= MAX_UNROLL:
            if isinstance(e, ast.Name) and not self.rd.defs_reaching(at, e.id) and not all(self._global_only(x) for x in list(v.keys) + list(v.values)):
                return None
            return v
        return None

    def _local_value(self, e: ast.AST, at: int) -> Optional[ast.AST]:
        """the expression a name stands for: its only (plain) local definition, else its module-level binding"""
        if not isinstance(e, ast.Name):
            return e
        defs = self.rd.defs_reaching(at, e.id)
        if not defs:
            return self._module_const(e.id)
        if len(defs) != 1:
            return None
        d = next(iter(defs))
        if d == self.g.entry:
            return None
        st = self.g.stmt[d]
        v = None
        if isinstance(st, ast.Assign) and len(st.targets) == 1 and isinstance(st.targets[0], ast.Name):
            v = st.value
        elif isinstance(st, ast.AnnAssign) and isinstance(st.target, ast.Name):
            v = st.value
        if v is None or not self._same_defs(v, d, at):
            return None
        return v

    def _operator_ctor(self, e: ast.AST) -> Optional[str]:
        """'attrgetter' / 'itemgetter' / 'methodcaller' when e constructs one of the operator module's accessor objects"""
        if not isinstance(e, ast.Call):
            return None
        fn = e.func
        name = None
        if isinstance(fn, ast.Attribute) and isinstance(fn.value, ast.Name):
            r = self.repo.lookup(self.f.mod.name, fn.value.id)
            if r and r[0] == "module" and r[1] == "operator":
                name = fn.attr
        elif isinstance(fn, ast.Name):
            r = self.repo.lookup(self.f.mod.name, fn.id)
            if r and r[0] == "external" and isinstance(r[1], tuple) and r[1][0] == "operator":
                name = r[1][1]
        return name if name in ("attrgetter", "itemgetter", "methodcaller") else None

    def applied_accessor(self, call: ast.Call, at: int) -> Optional[ast.AST]:
        """`attrgetter('a', 'b')(x)` -> `(x.a, x.b)`, `itemgetter(0, 1)(x)` -> `(x[0], x[1])`, `methodcaller('m', 1)(x)` -> `x.m(1)`
        (the accessor may be bound to a local or module-level name)"""
        if call.keywords or len(call.args) != 1 or isinstance(call.args[0], ast.Starred):
            return None
        ctor = self._local_value(call.func, at) if isinstance(call.func, ast.Name) else call.func
        kind = self._operator_ctor(ctor) if ctor is not None else None
        if kind is None or any(isinstance(a, ast.Starred) for a in ctor.args):
            return None
        x = call.args[0]
        if not isinstance(x, (ast.Name, ast.Attribute, ast.Subscript)):
            return None             # the operand would be evaluated several times
        if kind == "attrgetter":
            if not ctor.args or ctor.keywords or not all(isinstance(a, ast.Constant) and isinstance(a.value, str) and a.value for a in ctor.args):
                return None
            parts = []
            for a in ctor.args:
                cur: ast.AST = copy.deepcopy(x)
                for piece in a.value.split("."):
                    if not piece.isidentifier():
                        return None
                    cur = ast.Attribute(value=cur, attr=piece, ctx=ast.Load())
                parts.append(cur)
        elif kind == "itemgetter":
            if not ctor.args or ctor.keywords or not all(isinstance(a, ast.Constant) for a in ctor.args):
                return None
            parts = [ast.Subscript(value=copy.deepcopy(x), slice=copy.deepcopy(a), ctx=ast.Load()) for a in ctor.args]
        else:
            if not ctor.args or not (isinstance(ctor.args[0], ast.Constant) and isinstance(ctor.args[0].value, str) and ctor.args[0].value.isidentifier()):
                return None
            rest = ctor.args[1:]
            if not all(isinstance(a, ast.Constant) for a in rest) or not all(k.arg and isinstance(k.value, ast.Constant) for k in ctor.keywords):
                return None
            return ast.Call(func=ast.Attribute(value=copy.deepcopy(x), attr=ctor.args[0].value, ctx=ast.Load()),
                            args=[copy.deepcopy(a) for a in rest], keywords=[copy.deepcopy(k) for k in ctor.keywords])
        return parts[0] if len(parts) == 1 else ast.Tuple(elts=parts, ctx=ast.Load())

    def expanded_keywords(self, call: ast.Call, at: int) -> Optional[ast.Call]:
        """`f(a, **d)` with `d = {'k': x, ..}` (a display, directly or through a name) -> `f(a, k=x, ..)`"""
        if not any(k.arg is None for k in call.keywords):
            return None
        kws = []
        for k in call.keywords:
            if k.arg is not None:
                kws.append(k)
                continue
            v = self._local_value(k.value, at) if isinstance(k.value, ast.Name) else k.value
            if isinstance(v, ast.Call) and isinstance(v.func, ast.Name) and v.func.id == "dict" and not v.args and all(x.arg for x in v.keywords) \
                    and not self.rd.defs_reaching(at, "dict"):
                kws.extend(ast.keyword(arg=x.arg, value=x.value) for x in v.keywords)
                continue
            if not isinstance(v, ast.Dict) or not all(isinstance(x, ast.Constant) and isinstance(x.value, str) and x.value.isidentifier() for x in v.keys):
                return None
            kws.extend(ast.keyword(arg=x.value, value=y) for x, y in zip(v.keys, v.values))
        if len({k.arg for k in kws}) != len(kws):
            return None
        new = ast.Call(func=call.func, args=call.args, keywords=kws)
        return new

    _SAFE_CONSUMERS = {"zip", "map", "enumerate", "reversed", "list", "tuple", "len", "iter", "sorted", "set", "frozenset", "dict", "sum", "min", "max",
                       "any", "all", "filter", "str", "repr", "print", "isinstance"}

    def _mutable_name(self, name: str) -> bool:
        """the list / dict bound to this local name may change after its definition: a method is called on it, an item is stored,
        it is augmented, or it is handed to a function that is not known to leave it alone"""
        if not hasattr(self, "_mutable"):
            self._mutable: Dict[str, bool] = {}
        if name not in self._mutable:
            bad = False
            for n in ast.walk(self.f.node):
                if isinstance(n, ast.Attribute) and isinstance(n.value, ast.Name) and n.value.id == name:
                    if n.attr not in ("items", "keys", "values", "get", "index", "count", "copy"):
                        bad = True
                elif isinstance(n, ast.Subscript) and isinstance(n.value, ast.Name) and n.value.id == name and not isinstance(n.ctx, ast.Load):
                    bad = True
                elif isinstance(n, ast.AugAssign) and isinstance(n.target, ast.Name) and n.target.id == name:
                    bad = True
                elif isinstance(n, ast.Call):
                    fn = n.func.id if isinstance(n.func, ast.Name) else None
                    for a in list(n.args) + [k.value for k in n.keywords]:
                        a = a.value if isinstance(a, ast.Starred) else a
                        if isinstance(a, ast.Name) and a.id == name and fn not in self._SAFE_CONSUMERS:
                            bad = True
                if bad:
                    break
            self._mutable[name] = bad
        return self._mutable[name]

    def _is_display_name(self, e: ast.AST, at: int) -> bool:
        """a name bound to a tuple / list display: provenance pairs its components already, nothing to write out"""
        if not isinstance(e, ast.Name):
            return False
        defs = self.rd.defs_reaching(at, e.id)
        if len(defs) != 1:
            return False
        st = self.g.stmt[next(iter(defs))]
        return isinstance(st, (ast.Assign, ast.AnnAssign)) and isinstance(st.value, (ast.Tuple, ast.List)) \
            and not any(isinstance(x, ast.Starred) for x in st.value.elts)

    @staticmethod
    def _unrollable_body(loop: ast.For) -> bool:
        """no break / continue that belongs to this loop, no inlined helper block (its labels must stay unique), no nested definitions"""
        def scan(stmts, own: bool) -> bool:
            for s in stmts:
                if isinstance(s, (ast.Break, ast.Continue)) and own:
                    return False
                if getattr(s, "_inline_block", False) or getattr(s, "_inline_jump", False):
                    return False
                if isinstance(s, (ast.FunctionDef, ast.AsyncFunctionDef, ast.ClassDef, ast.Try, ast.With)):
                    return False
                if isinstance(s, (ast.For, ast.While)):
                    if not scan(s.body, False) or not scan(s.orelse, own):
                        return False
                elif isinstance(s, ast.If):
                    if not scan(s.body, own) or not scan(s.orelse, own):
                        return False
            return True
        return scan(loop.body, True)

    def _bind(self, target: ast.AST, value: ast.AST) -> Optional[Dict[str, ast.AST]]:
        if isinstance(target, ast.Name):
            return {target.id: value}
        if isinstance(target, (ast.Tuple, ast.List)) and isinstance(value, (ast.Tuple, ast.List)) and len(target.elts) == len(value.elts) \
                and not any(isinstance(x, ast.Starred) for x in list(target.elts) + list(value.elts)):
            out: Dict[str, ast.AST] = {}
            for t, v in zip(target.elts, value.elts):
                m = self._bind(t, v)
                if m is None:
                    return None
                out.update(m)
            return out
        return None

    def run(self) -> FuncInfo:
        repl: Dict[int, ast.AST] = {}
        for n in self.g.nodes():
            st = self.g.stmt[n]
            if not isinstance(st, (ast.Assign, ast.AnnAssign, ast.Return)) or st.value is None:
                continue
            for sub in ast.walk(st.value):
                if isinstance(sub, ast.Call):
                    acc = self.applied_accessor(sub, n)
                    if acc is None:
                        acc = self.expanded_keywords(sub, n)
                    if acc is not None:
                        repl[id(sub)] = ast.copy_location(copy.deepcopy(acc), sub)
                        continue
                if isinstance(sub, (ast.ListComp, ast.GeneratorExp)) or (isinstance(sub, ast.Call) and isinstance(sub.func, ast.Name)
                                                                          and sub.func.id in ("zip", "map", "enumerate", "reversed")):
                    got = self.seq(sub, n)
                    if got is not None:
                        new = (ast.List if isinstance(sub, ast.ListComp) else ast.Tuple)(elts=[copy.deepcopy(x) for x in got], ctx=ast.Load())
                        repl[id(sub)] = ast.copy_location(new, sub)
            # `a, b = <name bound to a display / generator of known length>`
            if isinstance(st, ast.Assign) and len(st.targets) == 1 and isinstance(st.targets[0], (ast.Tuple, ast.List)) \
                    and isinstance(st.value, (ast.Name, ast.Call)) and id(st.value) not in repl:
                got = self.seq(st.value, n)
                if got is not None and len(got) == len(st.targets[0].elts) and not self._is_display_name(st.value, n):
                    repl[id(st.value)] = ast.copy_location(ast.Tuple(elts=[copy.deepcopy(x) for x in got], ctx=ast.Load()), st.value)
            # `*xs, y = <sequence of known elements>` -> `xs, y = [e0, .., e_{n-2}], e_{n-1}`
            if isinstance(st, ast.Assign) and len(st.targets) == 1 and isinstance(st.targets[0], (ast.Tuple, ast.List)) \
                    and sum(isinstance(x, ast.Starred) for x in st.targets[0].elts) == 1 and all(isinstance(x, ast.Name) or (isinstance(x, ast.Starred) and isinstance(x.value, ast.Name))
                                                                                             for x in st.targets[0].elts):
                got = self.seq(st.value, n)
                elts = st.targets[0].elts
                if got is not None and len(got) >= len(elts) - 1:
                    i = next(k for k, x in enumerate(elts) if isinstance(x, ast.Starred))
                    tail = len(elts) - 1 - i
                    vals = [copy.deepcopy(x) for x in got]
                    mid = ast.List(elts=vals[i:len(vals) - tail], ctx=ast.Load())
                    new_val = ast.Tuple(elts=vals[:i] + [mid] + vals[len(vals) - tail:], ctx=ast.Load())
                    new_tgt = ast.Tuple(elts=[ast.Name(id=(x.value.id if isinstance(x, ast.Starred) else x.id), ctx=ast.Store()) for x in elts], ctx=ast.Store())
                    repl[id(st)] = ast.copy_location(ast.Assign(targets=[new_tgt], value=new_val, lineno=st.lineno), st)
        # `for T in <sequence of known length>: BODY` -> `T = e1; BODY; T = e2; BODY; ..` (a dispatch loop over a table becomes the
        # chain of tests it stands for)
        loops: Dict[int, List[ast.AST]] = {}
        for n in self.g.nodes():
            st = self.g.stmt[n]
            if self.g.kind[n] != "loop" or not isinstance(st, ast.For) or st.orelse or id(st) in loops:
                continue
            got = self.seq(st.iter, n)
            if got is None or not (0 < len(got) <= MAX_UNROLL) or not self._unrollable_body(st):
                continue
            if not all(self._bind(st.target, x) is not None or isinstance(st.target, ast.Name) for x in got):
                continue
            loops[id(st)] = got
        if not repl and not loops:
            return self.f
        memo: Dict[int, object] = {}
        fn = copy.deepcopy(self.f.node, memo)
        # deepcopy's memo maps id(original) -> copy: translate the replacement table to the copied nodes
        by_copy = {id(memo[k]): v for k, v in repl.items() if k in memo}

        loops_by_copy = {id(memo[k]): v for k, v in loops.items() if k in memo}

        class R(ast.NodeTransformer):
            def visit(self, node):
                if id(node) in by_copy:
                    return by_copy[id(node)]
                if id(node) in loops_by_copy and isinstance(node, ast.For):
                    elems = loops_by_copy.pop(id(node))
                    out = []
                    for x in elems:
                        tgt = copy.deepcopy(node.target)
                        out.append(ast.copy_location(ast.Assign(targets=[tgt], value=copy.deepcopy(x), lineno=node.lineno), node))
                        for b in node.body:
                            nb = self.visit(copy.deepcopy(b))
                            out.extend(nb if isinstance(nb, list) else [nb])
                    return out
                return super().visit(node)

        R().visit(fn)
        ast.fix_missing_locations(fn)
        out = FuncInfo(self.f.mod, self.f.cls, fn, static=self.f.static)
        out.qn = self.f.qn
        for a in ("flat_of", "inlined", "inlined_bodies"):
            if hasattr(self.f, a):
                setattr(out, a, getattr(self.f, a))
        return out


_unrolled: Dict[int, FuncInfo] = {}
_keep_alive: List[FuncInfo] = []


def unroll(repo: Repo, f: FuncInfo) -> FuncInfo:
    k = id(f.node)
    if k not in _unrolled:
        _keep_alive.append(f)
        cur = f
        for _ in range(4):          # a display produced by one step can feed the next (`sides = (g(s) for s in (a, b))` then `zip(sides, ..)`)
            nxt = Unroller(repo, cur).run()
            if nxt is cur:
                break
            cur = nxt
        _unrolled[k] = cur
    return _unrolled[k]



# --------------------------------------------------------------------------------------------------------------- def-use closure
def flows_to_return(f: FuncInfo, expr: ast.AST, limit: int = 400) -> bool:
    """L.flows_to_return that also follows a value into the element variable of a loop / comprehension that iterates over it
    (`for c in reversed(parts): text = f"(.. {c} {text})"`), and through starred unpacking.  A use inside a branch condition does not count."""
    from .. import cfg as C
    from .. import lib as L
    g = C.cfg_of(f.node)
    rd = L.rd_of(f)
    pm = L.parents_of(f)

    def stmt_of(e):
        cur = e
        while cur in pm and not isinstance(cur, ast.stmt):
            cur = pm[cur]
        return cur if isinstance(cur, ast.stmt) else None

    def in_test(e, st) -> bool:
        cur = e
        while cur in pm and cur is not st:
            par = pm[cur]
            if isinstance(par, (ast.If, ast.While, ast.IfExp, ast.Assert)) and par.test is cur:
                return True
            if isinstance(par, ast.comprehension) and any(cur is c for c in par.ifs):
                return True
            cur = par
        return False

    def uses_of(name: str, dn: Optional[int], any_def: bool):
        for u in ast.walk(f.node):
            if isinstance(u, ast.Name) and u.id == name and isinstance(u.ctx, ast.Load):
                un = g.node_containing(u)
                if un is None:
                    continue
                if any_def or dn in rd.defs_reaching(un, name) or un == dn:
                    yield u

    work, seen = [expr], set()
    while work and limit > 0:
        limit -= 1
        e = work.pop()
        st = stmt_of(e)
        if st is None or id(e) in seen or in_test(e, st):
            continue
        seen.add(id(e))
        if isinstance(st, ast.Return) or any(isinstance(x, (ast.Yield, ast.YieldFrom)) and any(y is e for y in ast.walk(x)) for x in ast.walk(st)):
            return True
        # into the element variable of a comprehension that iterates over the value: the element expression carries it on
        cur = e
        while cur in pm and cur is not st:
            par = pm[cur]
            if isinstance(par, ast.comprehension) and par.iter is cur or (isinstance(par, ast.comprehension) and any(cur is y for y in ast.walk(par.iter))):
                comp = pm.get(par)
                if comp is not None:
                    tn = C.target_names(par.target)
                    for u in ast.walk(comp):
                        if isinstance(u, ast.Name) and u.id in tn and isinstance(u.ctx, ast.Load):
                            work.append(u)
                break
            cur = par
        names, any_def = [], False
        if isinstance(st, ast.Assign):
            names = [n.id for t in st.targets for n in ast.walk(t) if isinstance(n, ast.Name)]
        elif isinstance(st, (ast.AnnAssign, ast.AugAssign)) and isinstance(st.target, ast.Name):
            names = [st.target.id]
        elif isinstance(st, ast.For) and any(e is y for y in ast.walk(st.iter)):
            names = sorted(C.target_names(st.target))
        elif isinstance(st, ast.Expr) and isinstance(st.value, ast.Call) and isinstance(st.value.func, ast.Attribute) and \
                st.value.func.attr in ("append", "add", "extend", "update", "insert", "appendleft") and isinstance(st.value.func.value, ast.Name):
            names, any_def = [st.value.func.value.id], True
        dn = g.node_of(st)
        for name in names:
            work.extend(uses_of(name, dn, any_def))
    return False
