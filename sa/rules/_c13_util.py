"""Local engine helpers of the C13 rules (candidates for promotion into sa/prov.py / sa/lib.py / sa/strshape.py).

* norm_paths      -- provenance paths with `in:<i>` + `unpack:<j>` / `item:<j>` cancelled (a tuple built by an inlined helper and
                     unpacked by the caller: component i only flows into target i) and `kw:<name>:<callee>` steps of repository
                     functions rewritten to their positional form `arg<i>:<callee>`
* ext_callee      -- the name a called function has where it is defined (`from re import sub as s` -> 'sub', `re.sub` -> 'sub')
* PureEval        -- concrete evaluation of a side-effect free string expression of the analysed function for a *witness* value of
                     its iteration variable (only the AST is interpreted; the operations are str / re operations of the standard
                     library on constants of the source and on the witness)
* render          -- canonical text of a string shape with rule-named holes (uninterpreted pieces that still have a node are holes)
"""
from __future__ import annotations

import ast
import re
from typing import Callable, Dict, Iterable, List, Optional, Set, Tuple

from .. import strshape as S
from ..core import AnalysisError, FuncInfo, Repo

Path = Tuple[str, ...]


# --------------------------------------------------------------------------------------------------------------- provenance paths
def _digits(step: str, prefix: str) -> Optional[str]:
    if step.startswith(prefix):
        d = step[len(prefix):]
        if d.isdigit():
            return d
    return None


def norm_paths(repo: Repo, paths: Iterable[Path]) -> Set[Path]:
    out: Set[Path] = set()
    for p in paths:
        if p[0] in ("fresh:tuple", "fresh:list") and len(p) > 1 and (_digits(p[1], "unpack:") or _digits(p[1], "item:")):
            continue            # a component of a literal tuple / list is what was put in (the `in:<i>` flows), not the container
        steps: List[str] = []
        dead = False
        for st in p:
            if steps:
                i = _digits(steps[-1], "in:")
                j = _digits(st, "unpack:") or _digits(st, "item:")
                if i is not None and j is not None:
                    if i == j:
                        steps.pop()
                        continue
                    dead = True
                    break
            if st.startswith("kw:"):
                _kw, name, callee = st.split(":", 2)
                idx = _param_index(repo, callee, name)
                if idx is not None:
                    st = f"arg{idx}:{callee}"
            steps.append(st)
        if not dead:
            out.add(tuple(steps))
    return out


_pi_cache: Dict[Tuple[int, str, str], Optional[int]] = {}


def _param_index(repo: Repo, callee: str, pname: str) -> Optional[int]:
    k = (id(repo), callee, pname)
    if k not in _pi_cache:
        idx = None
        cands = [f for f in repo.all_funcs() if f.name == callee]
        pos = set()
        for f in cands:
            params = list(f.params)
            if f.is_method:
                params = params[1:]
            if pname in params:
                pos.add(params.index(pname))
        if len(pos) == 1:
            idx = pos.pop()
        _pi_cache[k] = idx
    return _pi_cache[k]


def arg_index(step: str) -> Optional[int]:
    """arg<i>:<callee> -> i"""
    if step.startswith("arg"):
        head = step.split(":", 1)[0][3:]
        if head.isdigit():
            return int(head)
    return None


def is_main_flow(path: Path, carriers: Tuple[str, ...] = ()) -> bool:
    """the value travels as the *primary* operand all the way: receiver of a method or first argument of a call; second and later
    arguments, keyword arguments and the second component of what `carriers` return (their symbol table) are side channels"""
    for i, st in enumerate(path):
        if st.startswith("kw:"):
            return False
        k = arg_index(st)
        if k is not None and k != 0:
            return False
        if st == "unpack:1" and i and path[i - 1].split(":", 1)[-1] in carriers and path[i - 1].startswith("arg"):
            return False
    return True


# --------------------------------------------------------------------------------------------------------------- callee names
def ext_callee(repo: Repo, f: FuncInfo, call: ast.Call) -> str:
    fn = call.func
    if isinstance(fn, ast.Name):
        r = repo.lookup(f.mod.name, fn.id)
        if r and r[0] == "external" and isinstance(r[1], tuple) and r[1][1]:
            return r[1][1]
        return fn.id
    if isinstance(fn, ast.Attribute):
        return fn.attr
    return "<expr>"


# --------------------------------------------------------------------------------------------------------------- concrete evaluation
class NotPure(Exception):
    pass


_STR_METHODS = {"replace", "strip", "lstrip", "rstrip", "lower", "upper", "casefold", "translate", "removeprefix", "removesuffix", "split",
                "rsplit", "join", "isalnum", "isalpha", "isdigit", "isspace", "isidentifier", "startswith", "endswith", "title", "capitalize",
                "swapcase", "format", "partition", "rpartition", "splitlines", "count", "find", "index", "isupper", "islower", "zfill"}
_RE_FUNCS = {"sub", "compile", "escape", "split", "findall", "fullmatch", "match", "search"}
_BUILTINS = {"str": str, "len": len, "ord": ord, "chr": chr, "list": list, "tuple": tuple, "sorted": sorted, "reversed": lambda x: list(reversed(x)),
             "bool": bool, "int": int, "repr": repr, "set": lambda x: sorted(set(x))}


class PureEval:
    """evaluates an expression of f for a witness value of the iteration variable(s) it depends on"""

    def __init__(self, repo: Repo, f: FuncInfo, prov, witness: str):
        self.repo, self.f, self.p, self.witness = repo, f, prov, witness
        self.g = prov.g
        self.rd = prov.rd
        self.locals: List[Dict[str, object]] = []
        self.mods: List[str] = [f.mod.name]    # module whose globals are visible (changes inside an interpreted helper)
        self.inputs: Set[str] = set()          # names that were bound to the witness

    # -- names
    def _global(self, name: str):
        r = self.repo.lookup(self.mods[-1], name)
        if r is None:
            if name in _BUILTINS:
                return ("builtin", name)
            raise NotPure(f"name {name} is not resolved")
        if r[0] == "func":
            return ("func", r[1], r[2])
        if r[0] == "module":
            return ("module", r[1])
        if r[0] == "external":
            mod, attr = r[1]
            if mod == "re" and attr in _RE_FUNCS:
                return ("refunc", attr)
            if mod == "string" and attr in ("whitespace", "punctuation", "digits", "ascii_letters"):
                import string
                return getattr(string, attr)
            raise NotPure(f"external name {mod}.{attr} is not interpreted")
        if r[0] == "const":
            return self._in_module(r[1], r[2])
        raise NotPure(f"global {name} ({r[0]}) is not a constant")

    def _in_module(self, node: ast.AST, modname: str):
        """a module-level constant: literal, folded text, or a pure expression such as re.compile(<constant>) / str.maketrans(..)"""
        ok, v = self.repo.fold(node, modname)
        if ok:
            return tuple(v) if isinstance(v, list) else v
        if len(self.mods) > 6:
            raise NotPure("constant nesting")
        self.mods.append(modname)
        saved, self.locals = self.locals, []
        try:
            return self.ev(node, 1)
        finally:
            self.locals = saved
            self.mods.pop()

    def _name(self, e: ast.Name, depth: int):
        for scope in reversed(self.locals):
            if e.id in scope:
                return scope[e.id]
        if len(self.mods) > 1:
            return self._global(e.id)          # inside an interpreted helper: not a local of the frame, so a global of its module
        cb = self.p._comp_binding(e)
        if cb == "lambda":
            raise NotPure("lambda parameter")
        if cb is not None:
            if not isinstance(cb.target, ast.Name):
                raise NotPure(f"iteration variable {e.id} is one of several")
            self.inputs.add(e.id)
            return self.witness
        try:
            at = self.p.node_of(e)
        except KeyError:
            raise NotPure(f"{e.id} is not in the control flow graph")
        defs = self.rd.defs_reaching(at, e.id)
        if not defs:
            return self._global(e.id)
        vals = []
        for d in sorted(defs):
            if d == self.g.entry:
                raise NotPure(f"{e.id} is a parameter")
            st = self.g.stmt[d]
            if isinstance(st, ast.For):
                if not (isinstance(st.target, ast.Name) and st.target.id == e.id):
                    raise NotPure(f"iteration variable {e.id} is one of several")
                self.inputs.add(e.id)
                vals.append(self.witness)
            elif isinstance(st, ast.Assign) and len(st.targets) == 1:
                v = self.p._paired(st.targets[0], st.value, e.id)
                if v is None:
                    raise NotPure(f"definition of {e.id} is not a plain assignment")
                vals.append(self.ev(v, depth + 1))
            elif isinstance(st, ast.AnnAssign) and st.value is not None and isinstance(st.target, ast.Name):
                vals.append(self.ev(st.value, depth + 1))
            else:
                raise NotPure(f"definition of {e.id} at a {type(st).__name__}")
        first = vals[0]
        if any(v != first for v in vals[1:]):
            raise NotPure(f"{e.id} has several values")
        return first

    # -- expressions
    def ev(self, e: ast.AST, depth: int = 0):
        if depth > 40:
            raise NotPure("depth")
        E = lambda x: self.ev(x, depth + 1)
        if isinstance(e, ast.Constant):
            return e.value
        if isinstance(e, ast.Name):
            return self._name(e, depth)
        if isinstance(e, ast.JoinedStr):
            out = []
            for v in e.values:
                if isinstance(v, ast.Constant):
                    out.append(str(v.value))
                else:
                    if v.format_spec is not None or v.conversion not in (-1, 115):
                        raise NotPure("format specification")
                    out.append(str(E(v.value)))
            return "".join(out)
        if isinstance(e, ast.BinOp):
            a, b = E(e.left), E(e.right)
            try:
                if isinstance(e.op, ast.Add):
                    return a + b
                if isinstance(e.op, ast.Mult):
                    return a * b
                if isinstance(e.op, ast.Mod) and isinstance(a, str):
                    return a % b
                if isinstance(e.op, ast.BitOr) and isinstance(a, int) and isinstance(b, int):
                    return a | b
            except Exception as ex:
                raise NotPure(str(ex))
            raise NotPure(f"operator {type(e.op).__name__}")
        if isinstance(e, ast.UnaryOp) and isinstance(e.op, ast.Not):
            return not E(e.operand)
        if isinstance(e, ast.UnaryOp) and isinstance(e.op, ast.USub):
            return -E(e.operand)
        if isinstance(e, ast.BoolOp):
            v = None
            for x in e.values:
                v = E(x)
                if isinstance(e.op, ast.And) and not v:
                    return v
                if isinstance(e.op, ast.Or) and v:
                    return v
            return v
        if isinstance(e, ast.IfExp):
            return E(e.body) if E(e.test) else E(e.orelse)
        if isinstance(e, ast.Compare):
            left = E(e.left)
            for op, c in zip(e.ops, e.comparators):
                right = E(c)
                try:
                    ok = {ast.Eq: lambda: left == right, ast.NotEq: lambda: left != right, ast.In: lambda: left in right,
                          ast.NotIn: lambda: left not in right, ast.Lt: lambda: left < right, ast.Gt: lambda: left > right,
                          ast.LtE: lambda: left <= right, ast.GtE: lambda: left >= right, ast.Is: lambda: left is right,
                          ast.IsNot: lambda: left is not right}[type(op)]()
                except Exception as ex:
                    raise NotPure(str(ex))
                if not ok:
                    return False
                left = right
            return True
        if isinstance(e, (ast.Tuple, ast.List, ast.Set)):
            return tuple(E(x) for x in e.elts)
        if isinstance(e, ast.Dict):
            if any(k is None for k in e.keys):
                raise NotPure("dict expansion")
            return {E(k): E(v) for k, v in zip(e.keys, e.values)}
        if isinstance(e, ast.Subscript):
            base = E(e.value)
            try:
                if isinstance(e.slice, ast.Slice):
                    lo = E(e.slice.lower) if e.slice.lower is not None else None
                    hi = E(e.slice.upper) if e.slice.upper is not None else None
                    st = E(e.slice.step) if e.slice.step is not None else None
                    return base[lo:hi:st]
                return base[E(e.slice)]
            except NotPure:
                raise
            except Exception as ex:
                raise NotPure(str(ex))
        if isinstance(e, (ast.ListComp, ast.GeneratorExp, ast.SetComp)):
            return tuple(self._comp(e, 0, depth))
        if isinstance(e, ast.Attribute):
            m = self._module_of(e.value)
            if m == "re" and e.attr in _RE_FUNCS:
                return ("refunc", e.attr)
            if m == "re" and e.attr.isupper() and hasattr(re, e.attr):
                return getattr(re, e.attr)
            if m == "string" and e.attr in ("whitespace", "punctuation", "digits", "ascii_letters"):
                import string
                return getattr(string, e.attr)
            if isinstance(e.value, ast.Name) and e.value.id == "str" and e.attr == "maketrans":
                return ("builtin", "maketrans")
            raise NotPure(f"attribute {ast.unparse(e)[:40]}")
        if isinstance(e, ast.Call):
            return self._call(e, depth)
        raise NotPure(f"{type(e).__name__} expression")

    def _module_of(self, e: ast.AST) -> Optional[str]:
        if isinstance(e, ast.Name) and not any(e.id in sc for sc in self.locals):
            r = self.repo.lookup(self.mods[-1], e.id)
            if r and r[0] == "module":
                return r[1]
        return None

    # -- helpers of the repository: straight-line / if-else functions are interpreted
    def _run(self, fn: ast.FunctionDef, modname: str, args: list, kw: dict, depth: int):
        if depth > 30 or len(self.mods) > 6:
            raise NotPure("helper nesting")
        a = fn.args
        if a.vararg or a.kwarg or a.kwonlyargs:
            raise NotPure(f"signature of {fn.name}")
        params = [x.arg for x in a.posonlyargs + a.args]
        if len(args) > len(params) or any(k not in params for k in kw):
            raise NotPure(f"call of {fn.name}")
        frame: Dict[str, object] = dict(zip(params, args))
        frame.update(kw)
        self.mods.append(modname)
        self.locals.append(frame)
        try:
            for prm, dflt in zip(params[len(params) - len(a.defaults):], a.defaults):
                if prm not in frame:
                    frame[prm] = self.ev(dflt, depth + 1)
            if any(prm not in frame for prm in params):
                raise NotPure(f"call of {fn.name}: missing argument")
            done, v = self._exec(fn.body, frame, depth + 1)
            return v if done else None
        finally:
            self.locals.pop()
            self.mods.pop()

    def _exec(self, stmts, frame: Dict[str, object], depth: int):
        for s in stmts:
            if isinstance(s, ast.Expr) and isinstance(s.value, ast.Constant):
                continue
            if isinstance(s, ast.Pass):
                continue
            if isinstance(s, ast.Assign) and len(s.targets) == 1 and isinstance(s.targets[0], ast.Name):
                frame[s.targets[0].id] = self.ev(s.value, depth)
            elif isinstance(s, ast.AnnAssign) and isinstance(s.target, ast.Name) and s.value is not None:
                frame[s.target.id] = self.ev(s.value, depth)
            elif isinstance(s, ast.AugAssign) and isinstance(s.target, ast.Name) and isinstance(s.op, ast.Add) and s.target.id in frame:
                frame[s.target.id] = frame[s.target.id] + self.ev(s.value, depth)
            elif isinstance(s, ast.If):
                done, v = self._exec(s.body if self.ev(s.test, depth) else s.orelse, frame, depth)
                if done:
                    return True, v
            elif isinstance(s, ast.For) and isinstance(s.target, ast.Name) and not s.orelse:
                src = self.ev(s.iter, depth)
                if not isinstance(src, (str, tuple, list)):
                    raise NotPure("loop over a non-sequence")
                for x in src:
                    frame[s.target.id] = x
                    done, v = self._exec(s.body, frame, depth)
                    if done:
                        return True, v
            elif isinstance(s, ast.Return):
                return True, (self.ev(s.value, depth) if s.value is not None else None)
            else:
                raise NotPure(f"statement {type(s).__name__} in a helper")
        return False, None

    def _comp(self, comp, gi: int, depth: int):
        if gi == len(comp.generators):
            yield self.ev(comp.elt, depth + 1)
            return
        gen = comp.generators[gi]
        if gen.is_async or not isinstance(gen.target, ast.Name):
            raise NotPure("comprehension target")
        src = self.ev(gen.iter, depth + 1)
        if not isinstance(src, (str, tuple, list)):
            raise NotPure("comprehension over a non-sequence")
        for x in src:
            self.locals.append({gen.target.id: x})
            try:
                if all(self.ev(c, depth + 1) for c in gen.ifs):
                    yield from self._comp(comp, gi + 1, depth)
            finally:
                self.locals.pop()

    def _call(self, e: ast.Call, depth: int):
        E = lambda x: self.ev(x, depth + 1)
        if any(isinstance(a, ast.Starred) for a in e.args) or any(k.arg is None for k in e.keywords):
            raise NotPure("argument expansion")
        args = [E(a) for a in e.args]
        kw = {k.arg: E(k.value) for k in e.keywords}
        fn = e.func
        try:
            if isinstance(fn, ast.Attribute):
                try:
                    target = self.ev(fn, depth + 1)          # re.sub / str.maketrans
                except NotPure:
                    target = None
                if target is None:
                    recv = E(fn.value)
                    if isinstance(recv, str) and fn.attr in _STR_METHODS:
                        if fn.attr == "join" and args and not isinstance(args[0], (tuple, list, str)):
                            raise NotPure("join of a non-sequence")
                        res = getattr(recv, fn.attr)(*args, **kw)
                        return tuple(res) if isinstance(res, list) else res
                    if isinstance(recv, re.Pattern) and fn.attr in _RE_FUNCS:
                        return self._re_result(getattr(recv, fn.attr)(*args, **kw))
                    if isinstance(recv, dict) and fn.attr in ("get", "keys", "values", "items"):
                        res = getattr(recv, fn.attr)(*args)
                        return res if fn.attr == "get" else tuple(res)
                    raise NotPure(f"method {fn.attr} on {type(recv).__name__}")
            else:
                target = E(fn)
            if isinstance(target, tuple) and target and target[0] == "refunc":
                if any(callable(a) for a in args):
                    raise NotPure("callable replacement")
                return self._re_result(getattr(re, target[1])(*args, **kw))
            if isinstance(target, tuple) and target and target[0] == "func":
                return self._run(target[1], target[2], args, kw, depth + 1)
            if isinstance(target, tuple) and target and target[0] == "builtin":
                if target[1] == "maketrans":
                    return str.maketrans(*args)
                res = _BUILTINS[target[1]](*args, **kw)
                return tuple(res) if isinstance(res, list) else res
        except NotPure:
            raise
        except Exception as ex:
            raise NotPure(f"{ast.unparse(e)[:40]}: {ex}")
        raise NotPure(f"call {ast.unparse(e)[:50]}")

    @staticmethod
    def _re_result(v):
        if isinstance(v, list):
            return tuple(v)
        if isinstance(v, re.Match):
            return True
        return v


# --------------------------------------------------------------------------------------------------------------- shapes
def render(sh, hole: Callable[[ast.AST], str]) -> str:
    if isinstance(sh, S.Lit):
        return sh.text
    if isinstance(sh, S.Hole):
        return "{" + hole(sh.node) + "}"
    if isinstance(sh, S.Unk):
        return "{" + hole(sh.node) + "}" if sh.node is not None else "{?" + sh.why + "}"
    if isinstance(sh, S.Cat):
        return "".join(render(x, hole) for x in sh.parts)
    if isinstance(sh, S.Alt):
        a, b = render(sh.a, hole), render(sh.b, hole)
        return a if a == b else f"<{a}|{b}>"
    if isinstance(sh, S.Rep):
        return "[" + render(sh.body, hole) + "]*"
    raise AnalysisError(f"shape {type(sh).__name__} not rendered")


def squeeze(text: str) -> str:
    """layout-insensitive form of a PDDL template: runs of blanks are one blank, none after '(' / before ')'"""
    t = re.sub(r"\s+", " ", text).strip()
    return t.replace("( ", "(").replace(" )", ")")
