"""E1 -- loader, name resolution, class table, annotation-driven type inference, call resolution.

Everything here works on `ast` trees of the files under <root>/pddl_plus_parser. The library is never
imported.  A vanished anchor raises AnalysisError (exit 2), never a silent pass.
"""
from __future__ import annotations

import ast
import re
import collections
import pathlib
import warnings
from typing import Dict, Iterable, List, Optional, Tuple


class AnalysisError(Exception):
    """The analysis itself cannot proceed (anchor vanished, floor not met, uninterpretable construct)."""


PKG = "pddl_plus_parser"
EXCLUDED_PARTS = ("problem_generators",)

CONTAINER_MUTATORS = {
    "add", "update", "pop", "remove", "discard", "append", "extend", "insert", "clear", "setdefault",
    "popitem", "sort", "reverse", "popleft", "appendleft", "extendleft", "difference_update",
    "intersection_update", "symmetric_difference_update", "__setitem__", "__delitem__",
}
STR_METHODS = {
    "lower", "upper", "strip", "lstrip", "rstrip", "replace", "split", "splitlines", "join", "format",
    "startswith", "endswith", "find", "index", "count", "partition", "rpartition", "rsplit", "title",
    "casefold", "isdigit", "encode", "decode", "zfill", "is_integer",
}
CONTAINER_READERS = {"get", "items", "keys", "values", "copy", "union", "intersection", "difference", "index",
                     "count", "issubset", "issuperset", "isdisjoint", "most_common", "elements"}


class Module:
    def __init__(self, name: str, path: pathlib.Path, tree: ast.Module, ispkg: bool):
        self.name = name
        self.path = path
        self.tree = tree
        self.ispkg = ispkg
        self.defs: Dict[str, Tuple[str, ast.AST]] = {}  # name -> (class|func|const, node)
        self.imports: Dict[str, Tuple[str, Optional[str]]] = {}

    @property
    def short(self) -> str:
        return self.name.split(".", 1)[1] if "." in self.name else self.name


class ClassInfo:
    def __init__(self, mod: str, node: ast.ClassDef):
        self.mod = mod
        self.node = node
        self.name = node.name
        self.bases = [ast.unparse(b) for b in node.bases]
        self.methods: Dict[str, ast.FunctionDef] = {}
        self.props: set = set()
        self.static: set = set()
        self.fields: Dict[str, ast.AST] = {}  # class-level annotations
        for b in node.body:
            if isinstance(b, ast.FunctionDef):
                self.methods[b.name] = b
                for d in b.decorator_list:
                    if isinstance(d, ast.Name) and d.id == "property":
                        self.props.add(b.name)
                    if isinstance(d, ast.Name) and d.id in ("staticmethod",):
                        self.static.add(b.name)
            elif isinstance(b, ast.AnnAssign) and isinstance(b.target, ast.Name):
                self.fields[b.target.id] = b.annotation
        self.record_kind: Optional[str] = None       # "namedtuple" | "dataclass": a record whose constructor just stores its arguments
        self.synth_init: Optional[ast.FunctionDef] = None
        self.record_fields: List[Tuple[str, Optional[ast.AST]]] = []
        self._detect_record()

    def _detect_record(self) -> None:
        node = self.node
        kind = None
        if any(b.split(".")[-1] == "NamedTuple" for b in self.bases):
            kind = "namedtuple"
        for d in node.decorator_list:
            name = ast.unparse(d.func if isinstance(d, ast.Call) else d)
            if name.split(".")[-1] == "dataclass":
                if isinstance(d, ast.Call) and any(k.arg == "init" and isinstance(k.value, ast.Constant) and k.value.value is False for k in d.keywords):
                    return
                kind = "dataclass"
        if kind is None or any(m in self.methods for m in ("__init__", "__new__", "__post_init__")):
            return
        fields = []
        factories: Dict[str, ast.AST] = {}
        for b in node.body:
            if isinstance(b, ast.AnnAssign) and isinstance(b.target, ast.Name):
                if "ClassVar" in ast.unparse(b.annotation):
                    continue
                dflt = b.value
                if kind == "dataclass" and isinstance(dflt, ast.Call) and ast.unparse(dflt.func).split(".")[-1] == "field":
                    kw = {k.arg: k.value for k in dflt.keywords}
                    if isinstance(kw.get("init"), ast.Constant) and kw["init"].value is False:
                        continue
                    if "default" in kw:
                        dflt = kw["default"]
                    elif "default_factory" in kw:
                        # evaluated per construction, not a shared default: `self.f = factory() if f is <missing> else f`
                        dflt = ast.Constant(value=None)
                        factories[b.target.id] = kw["default_factory"]
                    else:
                        dflt = None
                fields.append((b.target.id, dflt))
        if not fields:
            return
        self.record_kind, self.record_fields = kind, fields
        # the constructor the interpreter generates, as source the engines can read
        args = ast.arguments(posonlyargs=[], args=[ast.arg(arg="self")] + [ast.arg(arg=f, annotation=self.fields.get(f)) for f, _d in fields],
                             kwonlyargs=[], kw_defaults=[], defaults=[copy_node(d) for _f, d in fields if d is not None])
        if any(d is None for _f, d in fields[len(fields) - len(args.defaults):]):
            return      # a field without default after one with a default: not a valid record, leave it alone
        def stored(f):
            if f in factories:
                return ast.IfExp(test=ast.Compare(left=ast.Name(id=f, ctx=ast.Load()), ops=[ast.Is()], comparators=[ast.Constant(value=None)]),
                                 body=ast.Call(func=copy_node(factories[f]), args=[], keywords=[]), orelse=ast.Name(id=f, ctx=ast.Load()))
            return ast.Name(id=f, ctx=ast.Load())

        body = [ast.Assign(targets=[ast.Attribute(value=ast.Name(id="self", ctx=ast.Load()), attr=f, ctx=ast.Store())],
                           value=stored(f), lineno=node.lineno) for f, _d in fields]
        fn = ast.FunctionDef(name="__init__", args=args, body=body, decorator_list=[], returns=None, type_comment=None, type_params=[])
        ast.copy_location(fn, node)
        for x in ast.walk(fn):
            if isinstance(x, (ast.expr, ast.stmt, ast.arg)) and not hasattr(x, "lineno"):
                ast.copy_location(x, node)
        ast.fix_missing_locations(fn)
        fn.synthesised = True
        self.synth_init = fn        # kept apart from `methods` (what the class itself defines)


def copy_node(n: ast.AST) -> ast.AST:
    import copy as _copy
    return _copy.deepcopy(n)


class FuncInfo:
    def __init__(self, mod: Module, cls: Optional[str], node: ast.FunctionDef, static: bool = False):
        self.mod = mod
        self.cls = cls
        self.node = node
        self.name = node.name
        self.static = static
        self.qn = f"{mod.short}::{cls + '.' if cls else ''}{node.name}"
        a = node.args
        self.params = [x.arg for x in a.posonlyargs + a.args] + [x.arg for x in a.kwonlyargs]
        pos = a.posonlyargs + a.args
        self.defaults: Dict[str, ast.AST] = {}
        for p, d in zip(pos[len(pos) - len(a.defaults):], a.defaults):
            self.defaults[p.arg] = d
        for p, d in zip(a.kwonlyargs, a.kw_defaults):
            if d is not None:
                self.defaults[p.arg] = d
        self.annotations = {x.arg: x.annotation for x in pos + a.kwonlyargs}
        self.is_method = cls is not None and not static
        self.self_name = self.params[0] if self.is_method and self.params else None

    @property
    def path(self) -> str:
        return str(self.mod.path)

    def loc(self, node: Optional[ast.AST] = None) -> str:
        n = node if node is not None else self.node
        return f"{self.mod.path}:{getattr(n, 'lineno', 0)}"

    def __repr__(self):
        return f"<Func {self.qn}>"


class Repo:
    """Parsed view of one source tree."""

    def __init__(self, root: str = "/repo", pkg: str = PKG, exclude: Iterable[str] = EXCLUDED_PARTS):
        self.root = pathlib.Path(root)
        self.pkg = pkg
        self.mods: Dict[str, Module] = {}
        self.classes: Dict[str, ClassInfo] = {}
        self.funcs: Dict[str, FuncInfo] = {}  # qn -> FuncInfo
        self.method_index: Dict[str, List[str]] = collections.defaultdict(list)  # method name -> [class]
        self.parsed_files = 0
        self.excluded_files = 0
        pkgdir = self.root / pkg
        if not pkgdir.is_dir():
            raise AnalysisError(f"package directory {pkgdir} not found")
        for p in sorted(pkgdir.rglob("*.py")):
            try:
                with warnings.catch_warnings():
                    warnings.simplefilter("ignore")
                    tree = ast.parse(p.read_text(encoding="utf-8"), filename=str(p))
            except SyntaxError as e:  # the tree does not even compile
                raise AnalysisError(f"cannot parse {p}: {e}")
            if any(part in exclude for part in p.parts):
                self.excluded_files += 1
                continue
            self.parsed_files += 1
            rel = p.relative_to(self.root).with_suffix("")
            name = ".".join(rel.parts)
            ispkg = False
            if name.endswith(".__init__"):
                name = name[: -len(".__init__")]
                ispkg = True
            self.mods[name] = Module(name, p, tree, ispkg)
        for m in self.mods.values():
            self._index_module(m)
        self._types_cache: Dict[str, "TypeEnv"] = {}
        self._callers = None

    # ------------------------------------------------------------------ indexing
    def _rel(self, m: Module, level: int, module: Optional[str]) -> str:
        if level == 0:
            return module or ""
        base = m.name.split(".")
        if not m.ispkg:
            base = base[:-1]
        base = base[: len(base) - (level - 1)]
        return ".".join(base + ([module] if module else []))

    def _index_module(self, m: Module) -> None:
        for n in m.tree.body:
            if isinstance(n, ast.ClassDef):
                m.defs[n.name] = ("class", n)
                ci = ClassInfo(m.name, n)
                if n.name in self.classes:
                    raise AnalysisError(f"duplicate class name {n.name} in {m.name} and {self.classes[n.name].mod}")
                self.classes[n.name] = ci
                for mn, fn in ci.methods.items():
                    fi = FuncInfo(m, n.name, fn, static=mn in ci.static)
                    self.funcs[fi.qn] = fi
                    self.method_index[mn].append(n.name)
                if ci.synth_init is not None:
                    self.synth_inits = getattr(self, "synth_inits", {})
                    self.synth_inits[n.name] = FuncInfo(m, n.name, ci.synth_init)
                    self.funcs[self.synth_inits[n.name].qn] = self.synth_inits[n.name]
            elif isinstance(n, ast.FunctionDef):
                m.defs[n.name] = ("func", n)
                fi = FuncInfo(m, None, n)
                self.funcs[fi.qn] = fi
            elif isinstance(n, ast.Assign):
                for t in n.targets:
                    if isinstance(t, ast.Name):
                        m.defs[t.id] = ("const", n.value)
            elif isinstance(n, ast.AnnAssign) and isinstance(n.target, ast.Name) and n.value is not None:
                m.defs[n.target.id] = ("const", n.value)
            elif isinstance(n, ast.ImportFrom):
                mod = self._rel(m, n.level, n.module)
                for a in n.names:
                    m.imports[a.asname or a.name] = (mod, a.name)
            elif isinstance(n, ast.Import):
                for a in n.names:
                    m.imports[(a.asname or a.name).split(".")[0]] = (a.name, None)

    # ------------------------------------------------------------------ lookup
    def lookup(self, modname: str, name: str, depth: int = 0):
        """Resolve a global name to (kind, node, defining module name)."""
        if depth > 8 or modname not in self.mods:
            return None
        m = self.mods[modname]
        if name in m.defs:
            return m.defs[name] + (modname,)
        if name in m.imports:
            mod, attr = m.imports[name]
            if attr is None:
                return ("module", mod, mod)
            if mod in self.mods:
                r = self.lookup(mod, attr, depth + 1)
                if r:
                    return r
                sub = mod + "." + attr
                if sub in self.mods:
                    return ("module", sub, sub)
            return ("external", (mod, attr), mod)
        return None

    def module(self, suffix: str) -> Module:
        """Module by dotted suffix, e.g. 'models.pddl_operator'."""
        hits = [m for n, m in self.mods.items() if n == suffix or n.endswith("." + suffix)]
        if len(hits) != 1:
            raise AnalysisError(f"anchor module '{suffix}' not found ({len(hits)} matches)")
        return hits[0]

    def cls(self, name: str) -> ClassInfo:
        if name not in self.classes:
            raise AnalysisError(f"anchor class '{name}' not found")
        return self.classes[name]

    def func(self, spec: str) -> FuncInfo:
        """'Class.method' or 'function' (unique) or 'mod_suffix::name'."""
        r = self.func_opt(spec)
        if r is None:
            raise AnalysisError(f"anchor function '{spec}' not found")
        return r

    def func_opt(self, spec: str) -> Optional[FuncInfo]:
        if "::" in spec:
            modsfx, name = spec.split("::", 1)
            hits = [f for f in self.funcs.values() if f.qn.split("::")[1] == name and
                    (f.mod.short == modsfx or f.mod.short.endswith("." + modsfx) or f.mod.name.endswith(modsfx))]
        elif "." in spec:
            c, mname = spec.split(".", 1)
            r = self.find_method(c, mname)
            return r
        else:
            hits = [f for f in self.funcs.values() if f.cls is None and f.name == spec]
        if len(hits) == 1:
            return hits[0]
        if len(hits) > 1:
            raise AnalysisError(f"anchor function '{spec}' is ambiguous: {[h.qn for h in hits]}")
        return None

    def mro(self, cname: str) -> List[str]:
        cache = self.__dict__.setdefault("_mro_cache", {})
        if cname in cache:
            return cache[cname]
        out: List[str] = []

        def rec(c):
            if c in self.classes and c not in out:
                out.append(c)
                for b in self.classes[c].bases:
                    rec(b)

        rec(cname)
        cache[cname] = out
        return out

    def subclasses(self, cname: str) -> List[str]:
        cache = self.__dict__.setdefault("_sub_cache", {})
        if cname not in cache:
            cache[cname] = [c for c in self.classes if cname in self.mro(c) and c != cname]
        return cache[cname]

    def find_method(self, cname: str, meth: str) -> Optional[FuncInfo]:
        for c in self.mro(cname):
            if meth in self.classes[c].methods:
                ci = self.classes[c]
                return self.funcs[f"{self.mods[ci.mod].short}::{c}.{meth}"]
            if meth == "__init__" and c in getattr(self, "synth_inits", {}):
                return self.synth_inits[c]      # the constructor the interpreter generates for a NamedTuple / dataclass
        return None

    def is_property(self, cname: str, attr: str) -> bool:
        for c in self.mro(cname):
            if attr in self.classes[c].methods:
                return attr in self.classes[c].props
        return False

    def declared_fields(self, cname: str) -> Dict[str, Optional[ast.AST]]:
        """class-level annotations plus `self.x = ...` in __init__ (own and inherited)."""
        out: Dict[str, Optional[ast.AST]] = {}
        for c in reversed(self.mro(cname)):
            ci = self.classes[c]
            for f, a in ci.fields.items():
                out[f] = a
            init = ci.methods.get("__init__")
            if init is not None and init.args.args:
                s = init.args.args[0].arg
                for n in ast.walk(init):
                    if isinstance(n, ast.Attribute) and isinstance(n.ctx, ast.Store) and isinstance(n.value, ast.Name) \
                            and n.value.id == s:
                        out.setdefault(n.attr, None)
        return out

    def all_funcs(self) -> List[FuncInfo]:
        return list(self.funcs.values())

    # ------------------------------------------------------------------ constants
    def const_node(self, modname: str, name: str) -> Optional[ast.AST]:
        r = self.lookup(modname, name)
        if r and r[0] == "const":
            return r[1]
        return None

    def const_value(self, modname: str, name: str, _d: int = 0):
        """Fold a module-level constant to a Python value (str / number / list / tuple of those).
        Returns (True, value) or (False, None)."""
        r = self.lookup(modname, name)
        if not r or r[0] != "const" or _d > 5:
            return False, None
        return self.fold(r[1], r[2], _d + 1)

    def fold(self, node: ast.AST, modname: str, _d: int = 0):
        if isinstance(node, ast.Constant):
            return True, node.value
        if isinstance(node, (ast.List, ast.Tuple, ast.Set)):
            vals = []
            for e in node.elts:
                ok, v = self.fold(e, modname, _d)
                if not ok:
                    return False, None
                vals.append(v)
            return True, vals
        if isinstance(node, ast.Name):
            return self.const_value(modname, node.id, _d)
        if isinstance(node, ast.JoinedStr):
            parts = []
            for v in node.values:
                if isinstance(v, ast.Constant):
                    parts.append(str(v.value))
                elif isinstance(v, ast.FormattedValue):
                    ok, x = self.fold(v.value, modname, _d)
                    if not ok:
                        return False, None
                    parts.append(str(x))
            return True, "".join(parts)
        if isinstance(node, ast.BinOp) and isinstance(node.op, ast.Add):
            ok1, a = self.fold(node.left, modname, _d)
            ok2, b = self.fold(node.right, modname, _d)
            if ok1 and ok2:
                try:
                    return True, a + b
                except Exception:
                    return False, None
        return False, None

    # ------------------------------------------------------------------ types
    def types(self, f: FuncInfo) -> "TypeEnv":
        k = f"{f.qn}#{id(f.node)}"
        if k not in self._types_cache:
            self._pinned = getattr(self, "_pinned", [])
            self._pinned.append(f.node)
            self._types_cache[k] = None  # recursion guard
            self._types_cache[k] = TypeEnv(self, f)
        te = self._types_cache[k]
        if te is None:
            return TypeEnv.__new__(TypeEnv)  # inert env during recursion
        return te

    def ann_to_type(self, a: Optional[ast.AST], modname: str, _d: int = 0):
        if a is None or _d > 6:
            return None
        if isinstance(a, ast.Constant) and isinstance(a.value, str):
            try:
                a = ast.parse(a.value, mode="eval").body
            except SyntaxError:
                return None
        if isinstance(a, ast.Constant) and a.value is None:
            return None
        if isinstance(a, ast.Name):
            if a.id == "str":
                return ("str",)
            if a.id in ("int", "float", "bool"):
                return ("num",)
            if a.id in ("deque",):
                return ("list", None)
            r = self.lookup(modname, a.id)
            if r and r[0] == "class":
                return ("cls", a.id)
            if r and r[0] == "const":
                return self.ann_to_type(r[1], r[2], _d + 1)  # alias such as SignatureType
            if a.id in self.classes:
                return ("cls", a.id)
            return None
        if isinstance(a, ast.Attribute):
            if a.attr in self.classes:
                return ("cls", a.attr)
            return None
        if isinstance(a, ast.Subscript):
            base = a.value.id if isinstance(a.value, ast.Name) else (a.value.attr if isinstance(a.value, ast.Attribute) else None)
            sl = a.slice
            elts = list(sl.elts) if isinstance(sl, ast.Tuple) else [sl]
            if base in ("Dict", "dict", "defaultdict", "DefaultDict", "Mapping", "OrderedDict"):
                return ("dict", self.ann_to_type(elts[0], modname, _d + 1),
                        self.ann_to_type(elts[1], modname, _d + 1) if len(elts) > 1 else None)
            if base in ("List", "list", "Iterator", "Iterable", "Sequence", "deque", "Deque"):
                return ("list", self.ann_to_type(elts[0], modname, _d + 1))
            if base in ("Set", "set", "FrozenSet", "frozenset"):
                return ("set", self.ann_to_type(elts[0], modname, _d + 1))
            if base == "Optional":
                return self.ann_to_type(elts[0], modname, _d + 1)
            if base in ("Tuple", "tuple"):
                return ("tuple", [self.ann_to_type(e, modname, _d + 1) for e in elts])
            if base == "Union":
                ts = [self.ann_to_type(e, modname, _d + 1) for e in elts]
                ts = [t for t in ts if t]
                if not ts:
                    return None
                return ("union", ts) if len(ts) > 1 else ts[0]
        return None

    def field_type(self, cname: str, attr: str):
        for c in self.mro(cname):
            ci = self.classes[c]
            if attr in ci.fields:
                return self.ann_to_type(ci.fields[attr], ci.mod)
            if attr in ci.methods and attr in ci.props:
                return self.ann_to_type(ci.methods[attr].returns, ci.mod)
            init = ci.methods.get("__init__")
            if init is not None and init.args.args:
                s = init.args.args[0].arg
                for n in ast.walk(init):
                    if isinstance(n, ast.Assign):
                        for t in n.targets:
                            if isinstance(t, ast.Attribute) and isinstance(t.value, ast.Name) and t.value.id == s \
                                    and t.attr == attr:
                                fi = self.find_method(c, "__init__")
                                tt = self.types(fi).typeof(n.value) if fi else None
                                if tt:
                                    return tt
        return None

    # ------------------------------------------------------------------ calls
    def resolve_call(self, f: FuncInfo, call: ast.Call):
        """-> (category, [targets]); category in repo|ctor|builtin|container|str|external|logging|unknown.
        targets: list of (kind, FuncInfo|None, class name|None), kind in func|method|static|ctor."""
        fn = call.func
        te = self.types(f)
        if isinstance(fn, ast.Name):
            if fn.id in te.env_names() and not self.lookup(f.mod.name, fn.id):
                return "unknown", []
            r = self.lookup(f.mod.name, fn.id)
            if r and r[0] == "func":
                tgt = self.funcs.get(f"{self.mods[r[2]].short}::{fn.id}")
                return "repo", [("func", tgt, None)]
            if r and r[0] == "class":
                init = self.find_method(fn.id, "__init__")
                return "ctor", [("ctor", init, fn.id)]
            if r and r[0] == "external":
                return "external", []
            if fn.id == "super":
                return "builtin", []
            return "builtin", []
        if isinstance(fn, ast.Attribute):
            src = ast.unparse(fn.value)
            if src.split(".")[-1] in ("logger", "logging") or src.endswith(".logger"):
                return "logging", []
            if isinstance(fn.value, ast.Name):
                r = self.lookup(f.mod.name, fn.value.id)
                if r and r[0] in ("module", "external") and fn.value.id not in te.env_names():
                    return "external", []
            if isinstance(fn.value, ast.Call) and isinstance(fn.value.func, ast.Name) and fn.value.func.id == "super" and f.cls:
                cands = []
                for b in self.classes[f.cls].bases:
                    m = self.find_method(b, fn.attr)
                    if m:
                        cands.append(("method", m, b))
                return ("repo", cands) if cands else ("builtin", [])
            t = te.typeof(fn.value)
            cands: list = []

            def add(tt):
                if not tt:
                    return
                if tt[0] in ("cls", "type"):
                    m = self.find_method(tt[1], fn.attr)
                    if m:
                        cands.append(("method" if tt[0] == "cls" and not m.static else "static", m, tt[1]))
                    # a receiver typed as a base class may be a subclass instance
                    if tt[0] == "cls":
                        for sc in self.subclasses(tt[1]):
                            if fn.attr in self.classes[sc].methods:
                                mm = self.find_method(sc, fn.attr)
                                cands.append(("method", mm, sc))
                elif tt[0] == "union":
                    for x in tt[1]:
                        add(x)

            add(t)
            if cands:
                return "repo", cands
            if t and t[0] in ("dict", "list", "set", "items", "tuple"):
                return "container", []
            if t and t[0] == "str":
                return "str", []
            if t and t[0] == "num":
                return "builtin", []
            if t is None:
                if fn.attr in CONTAINER_MUTATORS or fn.attr in CONTAINER_READERS:
                    # no repo class defines these names (checked by Repo.sanity)
                    if fn.attr not in self.method_index:
                        return "container", []
                if fn.attr in STR_METHODS and fn.attr not in self.method_index:
                    return "str", []
                if fn.attr in self.method_index:
                    out = []
                    for c in self.method_index[fn.attr]:
                        m = self.find_method(c, fn.attr)
                        out.append(("method", m, c))
                    return "repo", out
            return "unknown", []
        return "unknown", []

    def callers(self) -> Dict[str, set]:
        if self._callers is None:
            cs = collections.defaultdict(set)
            for f in self.funcs.values():
                for n in ast.walk(f.node):
                    if isinstance(n, ast.Call):
                        cat, tg = self.resolve_call(f, n)
                        for _k, t, _c in tg:
                            if t is not None:
                                cs[t.qn].add(f.qn)
                    elif isinstance(n, ast.Attribute) and isinstance(n.ctx, ast.Load):
                        # property reads
                        te = self.types(f)
                        t = te.typeof(n.value)
                        if t and t[0] == "cls" and self.is_property(t[1], n.attr):
                            m = self.find_method(t[1], n.attr)
                            if m:
                                cs[m.qn].add(f.qn)
            self._callers = cs
        return self._callers

    def stats(self) -> dict:
        calls = collections.Counter()
        for f in self.funcs.values():
            for n in ast.walk(f.node):
                if isinstance(n, ast.Call):
                    calls[self.resolve_call(f, n)[0]] += 1
        return {
            "modules": len(self.mods),
            "excluded_files": self.excluded_files,
            "classes": len(self.classes),
            "functions": len(self.funcs),
            "call_sites": sum(calls.values()),
            "calls_by_category": dict(calls),
        }


class TypeEnv:
    """Flow-insensitive local type environment of one function (annotation driven)."""

    def __init__(self, repo: Repo, f: FuncInfo):
        self.repo = repo
        self.f = f
        self.env: Dict[str, tuple] = {}
        for i, p in enumerate(f.params):
            if i == 0 and f.is_method:
                self.env[p] = ("cls", f.cls)
                continue
            t = repo.ann_to_type(f.annotations.get(p), f.mod.name)
            if t:
                self.env[p] = t
        for _ in range(3):
            for node in ast.walk(f.node):
                if isinstance(node, ast.Assign) and len(node.targets) == 1:
                    self.bind(node.targets[0], self.typeof(node.value))
                elif isinstance(node, ast.AnnAssign) and isinstance(node.target, ast.Name):
                    t = repo.ann_to_type(node.annotation, f.mod.name) or (self.typeof(node.value) if node.value else None)
                    if t:
                        self.env[node.target.id] = t
                elif isinstance(node, (ast.For, ast.comprehension)):
                    self.bind(node.target, self.elem(self.typeof(node.iter)))
                elif isinstance(node, ast.NamedExpr):
                    self.bind(node.target, self.typeof(node.value))

    def env_names(self):
        return getattr(self, "env", {}).keys()

    def elem(self, t):
        if not t:
            return None
        if t[0] in ("list", "set"):
            return t[1]
        if t[0] == "dict":
            return t[1]
        if t[0] == "items":
            return ("tuple", [t[1], t[2]])
        if t[0] == "str":
            return ("str",)
        if t[0] == "cls":
            m = self.repo.find_method(t[1], "__iter__")
            if m:
                r = self.repo.ann_to_type(m.node.returns, m.mod.name)
                return r
        return None

    def bind(self, target, t):
        if t is None:
            return
        if isinstance(target, ast.Name):
            if target.id not in self.env:
                self.env[target.id] = t
        elif isinstance(target, (ast.Tuple, ast.List)) and t[0] == "tuple":
            for e, tt in zip(target.elts, t[1]):
                self.bind(e, tt)

    def typeof(self, e):
        if not hasattr(self, "env"):
            return None
        repo = self.repo
        f = self.f
        if e is None:
            return None
        if isinstance(e, ast.Name):
            if e.id in self.env:
                return self.env[e.id]
            r = repo.lookup(f.mod.name, e.id)
            if r and r[0] == "class":
                return ("type", e.id)
            if r and r[0] == "const":
                return self.const_type(r[1], r[2])
            return None
        if isinstance(e, ast.Constant):
            if isinstance(e.value, str):
                return ("str",)
            if e.value is None:
                return None
            return ("num",)
        if isinstance(e, ast.JoinedStr):
            return ("str",)
        if isinstance(e, ast.Attribute):
            bt = self.typeof(e.value)
            if bt and bt[0] == "cls":
                return repo.field_type(bt[1], e.attr)
            if bt and bt[0] == "union":
                for x in bt[1]:
                    if x and x[0] == "cls":
                        r = repo.field_type(x[1], e.attr)
                        if r:
                            return r
            return None
        if isinstance(e, ast.Subscript):
            bt = self.typeof(e.value)
            if bt:
                if isinstance(e.slice, ast.Slice):
                    return bt
                if bt[0] == "dict":
                    return bt[2]
                if bt[0] == "list":
                    return bt[1]
                if bt[0] == "str":
                    return ("str",)
                if bt[0] == "tuple" and isinstance(e.slice, ast.Constant) and isinstance(e.slice.value, int) \
                        and -len(bt[1]) <= e.slice.value < len(bt[1]):
                    return bt[1][e.slice.value]
            return None
        if isinstance(e, ast.Call):
            return self._call_type(e)
        if isinstance(e, ast.IfExp):
            return self.typeof(e.body) or self.typeof(e.orelse)
        if isinstance(e, ast.BoolOp):
            for v in e.values:
                t = self.typeof(v)
                if t:
                    return t
            return None
        if isinstance(e, ast.Dict):
            if e.keys and e.keys[0] is None:
                return self.typeof(e.values[0])
            return ("dict", self.typeof(e.keys[0]) if e.keys else None, self.typeof(e.values[0]) if e.values else None)
        if isinstance(e, ast.DictComp):
            return ("dict", self.typeof(e.key), self.typeof(e.value))
        if isinstance(e, ast.List):
            return ("list", self.typeof(e.elts[0]) if e.elts else None)
        if isinstance(e, (ast.ListComp, ast.GeneratorExp)):
            return ("list", self.typeof(e.elt))
        if isinstance(e, ast.Set):
            return ("set", self.typeof(e.elts[0]) if e.elts else None)
        if isinstance(e, ast.SetComp):
            return ("set", self.typeof(e.elt))
        if isinstance(e, ast.Tuple):
            return ("tuple", [self.typeof(x) for x in e.elts])
        if isinstance(e, (ast.Compare, ast.UnaryOp)) and not (isinstance(e, ast.UnaryOp) and isinstance(e.op, ast.USub)):
            return ("num",)
        if isinstance(e, ast.BinOp):
            lt = self.typeof(e.left)
            if lt and lt[0] in ("str", "num", "list"):
                return lt
            return None
        return None

    def _call_type(self, e: ast.Call):
        repo = self.repo
        f = self.f
        fn = e.func
        if isinstance(fn, ast.Name):
            nm = fn.id
            if nm in ("list", "sorted", "reversed", "tuple") and e.args:
                return ("list", self.elem(self.typeof(e.args[0])))
            if nm == "list":
                return ("list", None)
            if nm in ("set", "frozenset"):
                return ("set", self.elem(self.typeof(e.args[0])) if e.args else None)
            if nm in ("dict", "defaultdict", "Counter", "OrderedDict"):
                if nm == "dict" and e.args:
                    return self.typeof(e.args[0]) or ("dict", None, None)
                return ("dict", None, None)
            if nm == "deque":
                return ("list", None)
            if nm in ("str", "repr", "format"):
                return ("str",)
            if nm in ("len", "int", "float", "bool", "round", "abs", "sum", "hash", "isinstance", "any", "all", "min", "max"):
                return ("num",)
            if nm == "iter" and e.args:
                return self.typeof(e.args[0])
            if nm == "next" and e.args:
                return self.elem(self.typeof(e.args[0]))
            if nm == "zip":
                return ("list", ("tuple", [self.elem(self.typeof(a)) for a in e.args]))
            if nm == "enumerate" and e.args:
                return ("list", ("tuple", [("num",), self.elem(self.typeof(e.args[0]))]))
            if nm == "super":
                if f.cls and repo.classes[f.cls].bases:
                    return ("cls", repo.classes[f.cls].bases[0])
                return None
            if nm in self.env:
                return None
            r = repo.lookup(f.mod.name, nm)
            if r and r[0] == "class":
                return ("cls", nm)
            if r and r[0] == "func":
                return repo.ann_to_type(r[1].returns, r[2])
            return None
        if isinstance(fn, ast.Attribute):
            bt = self.typeof(fn.value)
            if bt:
                if bt[0] == "dict":
                    if fn.attr == "values":
                        return ("list", bt[2])
                    if fn.attr == "keys":
                        return ("list", bt[1])
                    if fn.attr == "items":
                        return ("items", bt[1], bt[2])
                    if fn.attr in ("get", "pop", "setdefault"):
                        return bt[2]
                    if fn.attr == "copy":
                        return bt
                if bt[0] in ("list", "set"):
                    if fn.attr in ("pop", "popleft"):
                        return bt[1]
                    if fn.attr in ("copy", "intersection", "union", "difference"):
                        return bt
                if bt[0] == "str":
                    if fn.attr in ("split", "splitlines", "rsplit"):
                        return ("list", ("str",))
                    if fn.attr in ("startswith", "endswith", "isdigit", "find", "index", "count"):
                        return ("num",)
                    return ("str",)
                if bt[0] in ("cls", "type"):
                    m = repo.find_method(bt[1], fn.attr)
                    if m:
                        return repo.ann_to_type(m.node.returns, m.mod.name)
                if bt[0] == "union":
                    for x in bt[1]:
                        if x and x[0] == "cls":
                            m = repo.find_method(x[1], fn.attr)
                            if m:
                                return repo.ann_to_type(m.node.returns, m.mod.name)
            return None
        return None

    def const_type(self, node, modname):
        if isinstance(node, ast.Dict):
            return ("dict", None, None)
        if isinstance(node, ast.List):
            return ("list", ("str",))
        if isinstance(node, ast.Constant):
            return ("str",) if isinstance(node.value, str) else ("num",)
        if isinstance(node, ast.Call) and isinstance(node.func, ast.Name):
            if node.func.id in self.repo.classes:
                return ("cls", node.func.id)
            if node.func.id in ("float", "int"):
                return ("num",)
        if isinstance(node, ast.Name):
            r = self.repo.lookup(modname, node.id)
            if r and r[0] == "class":
                return ("type", node.id)
            if r and r[0] == "const":
                return self.const_type(r[1], r[2])
        return None


# ---------------------------------------------------------------------- small AST helpers
def names_in(node: ast.AST) -> set:
    return {n.id for n in ast.walk(node) if isinstance(n, ast.Name)}


def is_logging_call(call: ast.Call) -> bool:
    s = ast.unparse(call.func)
    parts = s.split(".")
    return "logger" in parts or "logging" in parts or s in ("print", "warnings.warn")


def attr_chain(e: ast.AST) -> Optional[List[str]]:
    """self.action.signature -> ['self','action','signature']; None if not a pure chain."""
    out = []
    while isinstance(e, ast.Attribute):
        out.append(e.attr)
        e = e.value
    if isinstance(e, ast.Name):
        out.append(e.id)
        return list(reversed(out))
    return None


_INLINE_SUFFIX = re.compile(r"__(?:i|c)\d+\b")


def unparse(n: ast.AST, limit: int = 100) -> str:
    """source text for messages; the suffixes that inlining gives to helper locals are removed"""
    return _INLINE_SUFFIX.sub("", _unparse(n, limit))


def _unparse(n: ast.AST, limit: int = 100) -> str:
    s = " ".join(ast.unparse(n).split())
    return s if len(s) <= limit else s[: limit - 3] + "..."


def parent_map(root: ast.AST) -> Dict[ast.AST, ast.AST]:
    pm = {}
    for p in ast.walk(root):
        for c in ast.iter_child_nodes(p):
            pm[c] = p
    return pm
