"""Positive controls: tiny constructs that MUST be reported by the zero-expected-count rules on every run.
This file is never imported or executed; it is only parsed by the checkers."""
from typing import Dict, List, Optional


class PDDLType:
    name: str
    parent: Optional["PDDLType"]

    def __init__(self, name: str, parent: Optional["PDDLType"] = None):
        self.name = name
        self.parent = parent

    def is_sub_type(self, other_type: "PDDLType") -> bool:
        return self.name == other_type.name


class Thing:
    type: PDDLType
    tags: Dict[str, int]

    def __init__(self, type: PDDLType):
        self.type = type
        self.tags = SHARED_TAGS


SHARED_TAGS = {"shared": 1}


def control_conform(thing: Thing, required: PDDLType) -> bool:
    # C06.conform control: conformance decided by name equality
    return thing.type.name == required.name


class Holder:
    thing: Thing
    items: List[str]

    def __init__(self, thing: Thing, items: List[str]):
        self.thing = thing
        self.items = items
        self.own: List[str] = []

    def control_write_input(self) -> None:
        # C07.write control: writes below a field that holds a constructor argument
        self.items.append("x")

    def fine_write_own(self) -> None:
        self.own.append("x")

    def control_write_global(self) -> None:
        # C07.global control: writes a module-level object through an aliasing field of a fresh object
        fresh = Thing(self.thing.type)
        fresh.tags["k"] = 2


class Cell:
    value: int

    def __init__(self):
        self.value = 0

    def set_value(self, v: int) -> None:
        self.value = v


class Owner:
    cells: List[Cell]

    def __init__(self):
        self.cells = [Cell()]

    def control_escape(self, out: Dict[str, Cell]) -> None:
        # C07.escape control: an object the owner rewrites in place is stored into the caller's container
        for cell in self.cells:
            cell.set_value(1)
            out["k"] = cell


class Predicate:
    signature: Dict[str, PDDLType]

    def __init__(self, signature: Dict[str, PDDLType]):
        self.signature = signature

    def change_signature(self, old_to_new: Dict[str, str]) -> None:
        # C18.simul control: pop / insert in the same dict inside one loop
        for old in list(self.signature.keys()):
            self.signature[old_to_new[old]] = self.signature.pop(old)


class PDDLFunction(Predicate):
    def change_signature(self, old_to_new: Dict[str, str]) -> None:
        for old in list(self.signature.keys()):
            self.signature[old_to_new[old]] = self.signature.pop(old)


class Action(Predicate):
    def change_signature(self, old_to_new: Dict[str, str]) -> None:
        for old in list(self.signature.keys()):
            self.signature[old_to_new[old]] = self.signature.pop(old)
