"""Catalogue of single-instance breaks ("break") and behaviour-preserving refactors ("twin") used to test the
checkers both ways.  Every entry is a text edit on a scratch copy of the CURRENT tree (anchors must occur exactly
once; an entry whose anchor vanished is reported as SKIP, never as a pass)."""

M = "pddl_plus_parser/models/"
LP = "pddl_plus_parser/lisp_parsers/"
EX = "pddl_plus_parser/exporters/"
MA = "pddl_plus_parser/multi_agent/"

MUTANTS = []


def brk(id, props, file, old, new, rules=None, why=""):
    MUTANTS.append(dict(id=id, kind="break", props=props, file=file, old=old, new=new, rules=rules or {}, why=why))


def twin(id, props, file, old, new, why=""):
    MUTANTS.append(dict(id=id, kind="twin", props=props, file=file, old=old, new=new, why=why))


# ------------------------------------------------------------------------------------------------ C03 / C04 / C07 (operator)
OP = M + "pddl_operator.py"
brk("c03-reintroduce-F1", ["C03"], OP, "            if not effect.antecedents_hold(previous_state):",
    "            if not not skip_validation and not effect.antecedents_hold(previous_state):", {"C03": ["C03.antecedent"]}, "original defect F1")
brk("c03-antecedent-on-new-state", ["C03"], OP, "            if not effect.antecedents_hold(previous_state):",
    "            if not effect.antecedents_hold(new_state):", {"C03": ["C03.antecedent"]}, "antecedents evaluated on the successor under construction")
brk("c03-antecedent-inverted", ["C03"], OP, "            if not effect.antecedents_hold(previous_state):",
    "            if effect.antecedents_hold(previous_state):", {"C03": ["C03.antecedent"]})
brk("c03-apply-on-param", ["C03", "C07"], OP, "        new_state = previous_state.copy()\n", "        new_state = previous_state\n",
    {"C03": ["C03.copy"], "C07": ["C07.write"]}, "effects applied to the input state")
brk("c03-universal-antecedent-on-current", ["C03"], OP, "if grounded_conditional_effect.antecedents_hold(previous_state):",
    "if grounded_conditional_effect.antecedents_hold(current_state):", {"C03": ["C03.antecedent"]})
brk("c03-rhs-on-successor", ["C03"], OP, "            effect.apply(new_state, previous_state)\n", "            effect.apply(new_state)\n",
    {"C03": ["C03.prestate_rhs"]}, "original defect F18")
brk("c03-skip-universal-on-allow", ["C03"], OP, "        self._apply_universal_effects(previous_state, new_state)\n        return new_state",
    "        if not allow_inapplicable_actions:\n            self._apply_universal_effects(previous_state, new_state)\n        return new_state", {"C03": ["C03.universal"]})
brk("c03-universal-args-swapped", ["C03"], OP, "        self._apply_universal_effects(previous_state, new_state)\n",
    "        self._apply_universal_effects(new_state, new_state)\n", {"C03": ["C03.antecedent"]})
brk("c06-reintroduce-F6", ["C06", "C03"], OP, "if not pddl_object.type.is_sub_type(universal_effect.quantified_type):",
    "if pddl_object.type.name != universal_effect.quantified_type.name:", {"C06": ["C06.conform"], "C03": ["C03.range"]}, "original defect F6")
brk("c06-subtype-reversed", ["C06"], OP, "if not pddl_object.type.is_sub_type(universal_effect.quantified_type):",
    "if not universal_effect.quantified_type.is_sub_type(pddl_object.type):", {"C06": ["C06.direction"]})
brk("c07-reintroduce-F4", ["C07"], OP, "                extended_action = Action()\n",
    "                self.action.signature[universal_effect.quantified_parameter] = universal_effect.quantified_type\n                extended_action = Action()\n",
    {"C07": ["C07.write"]}, "original defect F4")
brk("c07-ground-caches-on-action", ["C07"], OP, "        self.grounded = True\n", "        self.grounded = True\n        self.action.preconditions.add_condition(self.grounded_preconditions)\n",
    {"C07": ["C07.write"]}, "grounding mutates the schema")
brk("c04-refuse-inverted-allow", ["C04"], OP, "            if not allow_inapplicable_actions:\n                raise ValueError", "            if allow_inapplicable_actions:\n                raise ValueError",
    {"C04": ["C04.refuse"]})
brk("c04-refuse-never", ["C04"], OP, "        if not skip_validation and not self.is_applicable(previous_state):", "        if skip_validation and not self.is_applicable(previous_state):",
    {"C04": ["C04.refuse"]})
brk("c04-refuse-other-exception", ["C04"], OP, 'raise ValueError("Cannot apply an action when it is not applicable!")', 'raise RuntimeError("Cannot apply an action when it is not applicable!")',
    {"C04": ["C04.refuse"]})
brk("c02-is-applicable-negated", ["C02"], OP, "        return self.grounded_preconditions.is_applicable(state, self.problem_objects)",
    "        return not self.grounded_preconditions.is_applicable(state, self.problem_objects)", {"C02": ["C02.passthrough"]})
brk("c02-is-applicable-no-objects", ["C02"], OP, "        return self.grounded_preconditions.is_applicable(state, self.problem_objects)",
    "        return self.grounded_preconditions.is_applicable(state)", {"C02": ["C02.passthrough"]})
brk("c20-zip-sorted", ["C20"], OP, "            for lifted_param, grounded_object in zip(\n                self.action.signature, self.grounded_call_objects\n            )\n        }\n\n        self.grounded_preconditions",
    "            for lifted_param, grounded_object in zip(\n                sorted(self.action.signature), self.grounded_call_objects\n            )\n        }\n\n        self.grounded_preconditions", {"C20": ["C20.zip"]})
brk("c20-conditional-group-wrong-antecedents", ["C20"], OP, "                lifted_antecedents=conditional_effect.antecedents,\n                lifted_discrete_effects=conditional_effect.discrete_effects,\n                lifted_numeric_effects=conditional_effect.numeric_effects,\n                domain=self.domain,\n                action=self.action,\n            )\n            grounded_effect.ground_conditional_effect",
    "                lifted_antecedents=None,\n                lifted_discrete_effects=conditional_effect.discrete_effects,\n                lifted_numeric_effects=conditional_effect.numeric_effects,\n                domain=self.domain,\n                action=self.action,\n            )\n            grounded_effect.ground_conditional_effect", {"C20": ["C20.complete"]})
twin("t-op-rename-local", ["C03", "C04", "C07"], OP, "        new_state = previous_state.copy()\n        new_state.is_init = False\n",
     "        new_state = previous_state.copy()\n        new_state.is_init = False\n        self.logger.debug('copied the state')\n", "added logging")
twin("t-op-guard-as-if-else", ["C03"], OP, "            if not effect.antecedents_hold(previous_state):\n                self.logger.debug(\n                    \"The antecedents for the effect do not hold so skipping the effect.\"\n                )\n                continue\n\n            effect.apply(new_state, previous_state)",
     "            if effect.antecedents_hold(previous_state):\n                effect.apply(new_state, previous_state)\n            else:\n                self.logger.debug(\"skipping\")", "if/else flipped with negated test")

# ------------------------------------------------------------------------------------------------ grounded effect
GE = M + "grounded_effect.py"
brk("c07-reintroduce-F3", ["C07", "C03"], GE, "= new_value.copy()\n", "= new_value\n", {"C07": ["C07.escape"], "C03": ["C03.escape"]}, "original defect F3")
brk("c03-add-then-delete", ["C03"], GE, "        for predicate in delete_effects:", "        for predicate in []:", None, "placeholder - replaced below")
MUTANTS.pop()
brk("c03-polarity-swapped", ["C03"], GE, "            if not effect.is_positive\n        ]\n        add_effects = [\n            effect for effect in self.grounded_discrete_effects if effect.is_positive\n        ]",
    "            if effect.is_positive\n        ]\n        add_effects = [\n            effect for effect in self.grounded_discrete_effects if not effect.is_positive\n        ]", {"C03": ["C03.delete_add"]})
brk("c03-add-filter-dropped", ["C03"], GE, "            effect for effect in self.grounded_discrete_effects if effect.is_positive\n",
    "            effect for effect in self.grounded_discrete_effects\n", {"C03": ["C03.delete_add"]}, "negative literals are added too")
brk("c03-eval-after-store", ["C03"], GE, "        for new_value in new_values:\n            state.state_fluents[new_value.untyped_representation] = new_value.copy()\n",
    "        for grounded_expression in self.grounded_numeric_effects:\n            new_value = self._update_single_numeric_expression(grounded_expression, previous_state_functions=evaluation_state.state_fluents)\n            state.state_fluents[new_value.untyped_representation] = new_value.copy()\n",
    {"C03": ["C03.prestate_rhs"]})
brk("c03-antecedents-bypass", ["C03"], GE, "        if self.grounded_antecedents is None or allow_inapplicable_actions:\n            return True",
    "        if self.grounded_antecedents is None or allow_inapplicable_actions:\n            return True\n        if not state.state_fluents:\n            return True", None)
MUTANTS.pop()
brk("c20-numeric-effects-filtered", ["C20"], GE, "        for effect in self._lifted_numeric_effects:\n            self.grounded_numeric_effects.add(",
    "        for effect in self._lifted_numeric_effects:\n            if len(self.grounded_numeric_effects) > 3:\n                continue\n            self.grounded_numeric_effects.add(", {"C20": ["C20.complete"]})
twin("t-ge-add-loop-as-comprehension", ["C03"], GE, "        for predicate in add_effects:\n            lifted_predicate_str = predicate.lifted_untyped_representation\n",
     "        for predicate in add_effects:\n            self.logger.debug('adding')\n            lifted_predicate_str = predicate.lifted_untyped_representation\n", "logging added inside the insertion loop")

# ------------------------------------------------------------------------------------------------ numerical expression (C12, C01)
NE = M + "numerical_expression.py"
brk("c12-minus-swapped", ["C12"], NE, '"-": lambda x, y: x - y,', '"-": lambda x, y: y - x,', {"C12": ["C12.arith"]})
brk("c12-div-as-mul", ["C12"], NE, '"/": lambda x, y: x / y,', '"/": lambda x, y: x * y,', {"C12": ["C12.arith"]})
brk("c12-le-strict", ["C12", "C02"], NE, '"<=": lambda x, y: math.isclose(x, y, rel_tol=0, abs_tol=EPSILON) or (x < y),', '"<=": lambda x, y: x < y,', {"C12": ["C12.compare"], "C02": ["C12.compare"]})
brk("c12-ge-uses-lt", ["C12"], NE, "or (x > y),", "or (x < y),", {"C12": ["C12.compare"]})
brk("c12-gt-tolerant", ["C12"], NE, '">": lambda x, y: x > y,', '">": lambda x, y: x > y or math.isclose(x, y, rel_tol=0, abs_tol=EPSILON),', {"C12": ["C12.compare"]})
brk("c12-reintroduce-F21", ["C12"], NE, '"=": lambda x, y: math.isclose(x, y, rel_tol=0, abs_tol=EPSILON),', '"=": lambda x, y: math.isclose(x, y, abs_tol=EPSILON),', {"C12": ["C12.compare"]})
brk("c12-eq-fixed-tolerance", ["C12"], NE, '"=": lambda x, y: math.isclose(x, y, rel_tol=0, abs_tol=EPSILON),', '"=": lambda x, y: math.isclose(x, y, rel_tol=0, abs_tol=0.001),', {"C12": ["C12.compare"]})
brk("c12-decrease-adds", ["C12", "C03"], NE, "    value_to_decrease.set_value(previous_value - decrease_by)", "    value_to_decrease.set_value(previous_value + decrease_by)", {"C12": ["C12.assign"], "C03": ["C03.assign"]})
brk("c12-assign-increments", ["C12"], NE, "    assigned_variable.set_value(value_to_assign)", "    assigned_variable.set_value(assigned_variable.value + value_to_assign)", {"C12": ["C12.assign"]})
brk("c12-calculate-swapped", ["C12"], NE, "    return NUMERICAL_BINARY_OPERATORS[numerical_operator](left_operand, right_operand)", "    return NUMERICAL_BINARY_OPERATORS[numerical_operator](right_operand, left_operand)", {"C12": ["C12.order"]})
brk("c12-compare-children-swapped", ["C12"], NE, "    compared_operator = calculate(expression_tree.children[0])\n    evaluated_operand = calculate(expression_tree.children[1])",
    "    compared_operator = calculate(expression_tree.children[1])\n    evaluated_operand = calculate(expression_tree.children[0])", {"C12": ["C12.order"]})
brk("c12-construct-children-swapped", ["C12"], NE, "            construct_expression_tree(expression_ast[1], domain_functions),\n            construct_expression_tree(expression_ast[2], domain_functions),",
    "            construct_expression_tree(expression_ast[2], domain_functions),\n            construct_expression_tree(expression_ast[1], domain_functions),", {"C12": ["C12.order"]})
brk("c12-print-operands-swapped", ["C12"], NE, '        return f"({node.value} {left_operand} {right_operand})"', '        return f"({node.value} {right_operand} {left_operand})"', {"C12": ["C12.order"]})
brk("c12-epsilon-not-float", ["C12"], NE, 'EPSILON = float(os.environ.get("EPSILON", 0.0001))', 'EPSILON = os.environ.get("EPSILON", 0.0001)', {"C12": ["C12.env", "C12.compare"]})
brk("c12-set-value-one-child", ["C12"], NE, "    set_expression_value(expression_node.children[0], state_fluents)\n    set_expression_value(expression_node.children[1], state_fluents)",
    "    set_expression_value(expression_node.children[0], state_fluents)", {"C12": ["C12.leaf"]})
brk("c01-reintroduce-F17", ["C01"], NE, '        return AnyNode(id=str(new_function), value=new_function)\n\n    if len(expression_ast) != 3:\n        raise SyntaxError("Only binary numerical expressions are supported!")\n',
    "        return AnyNode(id=str(new_function), value=new_function)\n", {"C01": ["C01.arity"]}, "original defect F17")
twin("t-ne-lambda-params-renamed", ["C12"], NE, '"-": lambda x, y: x - y,', '"-": lambda a, b: a - b,', "lambda parameters renamed")
twin("t-ne-le-reordered", ["C12"], NE, '"<=": lambda x, y: math.isclose(x, y, rel_tol=0, abs_tol=EPSILON) or (x < y),', '"<=": lambda x, y: (x < y) or math.isclose(y, x, rel_tol=0, abs_tol=EPSILON),', "disjuncts reordered, isclose operands swapped")
twin("t-ne-increase-inline", ["C12", "C03"], NE, "    previous_value = value_to_increase.value\n    value_to_increase.set_value(previous_value + increase_by)", "    value_to_increase.set_value(increase_by + value_to_increase.value)", "local removed, operands commuted")

# ------------------------------------------------------------------------------------------------ precondition evaluation (C02)
GP = M + "grounded_precondition.py"
brk("c02-literal-polarity-ignored", ["C02"], GP, "            condition.untyped_representation in state.serialize()\n            if condition.is_positive\n            else positive_condition_predicate.untyped_representation\n            not in state.serialize(),",
    "            condition.untyped_representation in state.serialize(),", {"C02": ["C02.literal"]})
brk("c02-negative-tests-negative-text", ["C02"], GP, "            else positive_condition_predicate.untyped_representation\n            not in state.serialize(),", "            else condition.untyped_representation\n            not in state.serialize(),", {"C02": ["C02.literal"]})
brk("c02-and-table-is-or", ["C02"], GP, '"and": lambda x, y: x and y,', '"and": lambda x, y: x or y,', {"C02": ["C02.tables"]})
brk("c02-inequality-uses-eq", ["C02"], GP, "[obj1 != obj2 for obj1, obj2 in preconditions.inequality_preconditions]", "[obj1 == obj2 for obj1, obj2 in preconditions.inequality_preconditions]", {"C02": ["C02.equality"]})
brk("c02-equality-any", ["C02"], GP, "        return all(\n            [obj1 == obj2 for obj1, obj2 in preconditions.equality_preconditions]\n        ) and all(", "        return any(\n            [obj1 == obj2 for obj1, obj2 in preconditions.equality_preconditions]\n        ) and all(", {"C02": ["C02.equality"]})
brk("c02-keyerror-true", ["C02"], GP, "        except KeyError:\n            is_applicable = False", "        except KeyError:\n            is_applicable = True", {"C02": ["C02.keyerror"]})
brk("c02-numeric-arm-overwrites", ["C02"], GP, "            elif isinstance(condition, NumericalExpressionTree):\n                is_applicable = BinaryOperator[preconditions.binary_operator](\n                    is_applicable,\n                    self._validate_numeric_expression_hold(\n                        condition, is_applicable, preconditions, state\n                    ),\n                )\n\n            elif isinstance(condition, Precondition):\n                is_applicable = BinaryOperator[preconditions.binary_operator](\n                    is_applicable, self._is_condition_applicable(condition, state)",
    "            elif isinstance(condition, NumericalExpressionTree):\n                is_applicable = self._validate_numeric_expression_hold(\n                        condition, True, preconditions, state\n                    )\n\n            elif isinstance(condition, Precondition):\n                is_applicable = BinaryOperator[preconditions.binary_operator](\n                    is_applicable, self._is_condition_applicable(condition, state)", {"C02": ["C02.foldarms"]})
brk("c02-ground-predicate-dropped", ["C02", "C20"], GP, "                grounded_conditions.add_condition(grounded_predicate)\n\n            elif isinstance(precondition, NumericalExpressionTree):\n                grounded_conditions.add_condition(\n                    ground_numeric_calculation_tree(\n                        precondition, parameters_map, self.domain",
    "                self.logger.debug(grounded_predicate)\n\n            elif isinstance(precondition, NumericalExpressionTree):\n                grounded_conditions.add_condition(\n                    ground_numeric_calculation_tree(\n                        precondition, parameters_map, self.domain", {"C02": ["C02.translate"], "C20": ["C20.translate"]})
brk("c06-reintroduce-F6b", ["C06", "C02"], GP, "            if not obj.type.is_sub_type(condition.quantified_type):", "            if obj.type.name != condition.quantified_type.name:", {"C06": ["C06.conform"], "C02": ["C02.range"]})
brk("c07-reintroduce-F4b", ["C07"], GP, "        tmp_action.signature = {\n            **self.action.signature,\n            condition.quantified_parameter: condition.quantified_type,\n        }",
    "        tmp_action.signature = self.action.signature\n        tmp_action.signature[condition.quantified_parameter] = condition.quantified_type", {"C07": ["C07.write"]})
twin("t-gp-rename-acc", ["C02"], GP, "        return all(\n            [obj1 == obj2 for obj1, obj2 in preconditions.equality_preconditions]", "        return all(\n            [first == second for first, second in preconditions.equality_preconditions]", "comprehension variables renamed")

# ------------------------------------------------------------------------------------------------ state (C14, C07)
ST = M + "pddl_state.py"
brk("c14-eq-ignores-fluents", ["C14"], ST, "        return my_numeric_expressions == other_numeric_expressions", "        return True", {"C14": ["C14.eq"]})
brk("c14-eq-asymmetric", ["C14"], ST, "            for expression in other.state_fluents.values()\n        }", "            for expression in self.state_fluents.values()\n        }", {"C14": ["C14.eq"]})
brk("c14-eq-ordered", ["C14"], ST, "        my_numeric_expressions = {\n            expression.state_representation\n            for expression in self.state_fluents.values()\n        }\n        other_numeric_expressions = {\n            expression.state_representation\n            for expression in other.state_fluents.values()\n        }",
    "        my_numeric_expressions = [\n            expression.state_representation\n            for expression in self.state_fluents.values()\n        ]\n        other_numeric_expressions = [\n            expression.state_representation\n            for expression in other.state_fluents.values()\n        ]", {"C14": ["C14.eq"]})
brk("c14-eq-or", ["C14"], ST, "        if my_predicates != other_predicates:\n            return False", "        if my_predicates == other_predicates:\n            return True", {"C14": ["C14.eq"]})
brk("c14-copy-shares-fluents", ["C14", "C07"], ST, "            fluent_name: fluent.copy()\n", "            fluent_name: fluent\n", {"C14": ["C14.copy"], "C07": ["C07.copyfresh"]})
brk("c14-copy-shares-predicate-sets", ["C14", "C07"], ST, "            predicate_name: {predicate.copy() for predicate in predicates}\n", "            predicate_name: predicates\n", {"C14": ["C14.copy"], "C07": ["C07.copyfresh"]})
brk("c14-copy-drops-is-init", ["C14"], ST, "        return State(copied_predicates, copied_fluents, is_init=self.is_init)", "        return State(copied_predicates, copied_fluents)", {"C14": ["C14.copy"]})
brk("c14-serialize-drops-label", ["C14", "C10"], ST, "            f\"({':init' if self.is_init else ':state'}\"", "            f\"(:state\"", {"C14": ["C14.serialize"], "C10": ["C10.fields", "C10.keywords"]})
twin("t-st-eq-names", ["C14"], ST, "        my_predicates = {", "        my_predicates  = {", "whitespace only")

# ------------------------------------------------------------------------------------------------ predicates / functions (C14, C18, C08)
PR = M + "pddl_predicate.py"
brk("c14-gpred-copy-drops-mapping", ["C14"], PR, "            self.name,\n            self.signature,\n            self.object_mapping,\n            self.is_positive if not is_negated else not self.is_positive,", "            self.name,\n            self.signature,\n            {},\n            self.is_positive if not is_negated else not self.is_positive,", {"C14": ["C14.copy"]})
brk("c14-gpred-copy-flips", ["C14"], PR, "            self.object_mapping,\n            self.is_positive if not is_negated else not self.is_positive,", "            self.object_mapping,\n            not self.is_positive if not is_negated else self.is_positive,", {"C14": ["C14.copy"]})
brk("c08-negative-template", ["C08", "C09"], PR, '        return f"(not ({self.name} {untyped_grounded_signature_str}))"', '        return f"(not {self.name} {untyped_grounded_signature_str})"', {"C08": ["C08.polarity"], "C09": ["C09.polarity", "C09.balance"]})
brk("c08-lifted-negative-lost", ["C08"], PR, '        return f"(not ({self.name} {untyped_signature_str}))"', '        return f"({self.name} {untyped_signature_str})"', {"C08": ["C08.polarity", "C08.fields"]})
brk("c18-reintroduce-F10", ["C18"], PR, "        renamed_signature = {\n            old_to_new_param_names[old_param_name]: param_type\n            for old_param_name, param_type in self.signature.items()\n        }\n        self.signature.clear()\n        self.signature.update(renamed_signature)",
    "        for old_param_name in list(self.signature.keys()):\n            new_param_name = old_to_new_param_names[old_param_name]\n            self.signature[new_param_name] = self.signature.pop(old_param_name)", {"C18": ["C18.simul"]})
brk("c18-rename-sorted", ["C18"], PR, "            for old_param_name, param_type in self.signature.items()\n        }\n        self.signature.clear()", "            for old_param_name, param_type in sorted(self.signature.items())\n        }\n        self.signature.clear()", {"C18": ["C18.order"]})
FN = M + "pddl_function.py"
brk("c14-function-copy-drops-value", ["C14"], FN, "        copied_function.stored_value = self.stored_value\n", "", {"C14": ["C14.copy"]})
brk("c09-fluent-text-drops-repeats", ["C09", "C14"], FN, "    def state_representation(self) -> str:\n        \"\"\"Returns the state representation of the function.\"\"\"\n        function_variables = []\n        for repeating_variable, num_repeats in self.repeating_variables.items():\n            function_variables.extend([repeating_variable] * num_repeats)\n        function_variables.extend(\n            param for param in self.signature if param not in self.repeating_variables\n        )",
    "    def state_representation(self) -> str:\n        \"\"\"Returns the state representation of the function.\"\"\"\n        function_variables = []\n        function_variables.extend(\n            param for param in self.signature\n        )", {"C09": ["C09.fields"], "C14": ["C14.views"]})

# ------------------------------------------------------------------------------------------------ parsers (C01, C05, C06, C10, C11)
DP = LP + "domain_parser.py"
brk("c01-reintroduce-F14", ["C01"], DP, '        if preconditions_ast[0] != "and":\n            # A body that is a single condition, e.g. (p ?x) or (not (p ?x)), is a conjunction of one element.\n            preconditions_ast = ["and", preconditions_ast]',
    '        if preconditions_ast[0] != "and" and len(preconditions_ast[1:]) > 1:\n            raise SyntaxError("Only accepting conjunctive preconditions!")', {"C01": ["C01.headstrip"]})
brk("c01-functions-section-dropped", ["C01"], DP, '            elif expression[0] == ":functions":\n                domain.functions = self.parse_functions(expression[1:], domain.types)\n', "", {"C01": ["C01.sections"]})
brk("c01-constants-stored-in-predicates", ["C01"], DP, "                domain.constants = self.parse_constants(expression[1:], domain.types)", "                domain.predicates = self.parse_constants(expression[1:], domain.types)", {"C01": ["C01.sections"]})
brk("c01-reintroduce-F11a", ["C01"], DP, "        constants.update(\n            {name: PDDLConstant(name, ObjectType) for name in same_type_constants}\n        )\n", "", {"C01": ["C01.leftover"]})
brk("c06-reintroduce-F12-unregistered", ["C06"], DP, "                else pddl_types.setdefault(\n                    pddl_type, PDDLType(name=pddl_type, parent=ObjectType)\n                )", "                else pddl_types.get(\n                    pddl_type, PDDLType(name=pddl_type, parent=ObjectType)\n                )", {"C06": ["C06.closure"]})
brk("c06-overwrite-existing", ["C06"], DP, "                if descendant_typ_name in pddl_types:\n                    # The type was already referenced as a parent, keep the object and set its real parent.\n                    pddl_types[descendant_typ_name].parent = parent_type\n                else:\n                    pddl_types[descendant_typ_name] = PDDLType(\n                        name=descendant_typ_name, parent=parent_type\n                    )",
    "                pddl_types[descendant_typ_name] = PDDLType(\n                    name=descendant_typ_name, parent=parent_type\n                )", {"C06": ["C06.identity"]})
brk("c06-parent-always-object", ["C06"], DP, "                    pddl_types[descendant_typ_name] = PDDLType(\n                        name=descendant_typ_name, parent=parent_type\n                    )", "                    pddl_types[descendant_typ_name] = PDDLType(\n                        name=descendant_typ_name, parent=ObjectType\n                    )", {"C06": ["C06.parentlink"]})
brk("c06-object-not-registered", ["C06"], DP, '        pddl_types["object"] = ObjectType\n', "", {"C06": ["C06.root"]})
TY = M + "pddl_type.py"
brk("c06-walk-stops-at-parent", ["C06"], TY, "        return PDDLType.is_sub_type_aux(my_type.parent, other_type)", "        return my_type.parent.name == other_type.name", {"C06": ["C06.walk"]})
brk("c06-walk-root-true", ["C06"], TY, "        if my_type.parent is None:\n            return False", "        if my_type.parent is None:\n            return True", {"C06": ["C06.walk"]})
brk("c06-walk-args-swapped", ["C06"], TY, "        return PDDLType.is_sub_type_aux(self, other_type)", "        return PDDLType.is_sub_type_aux(other_type, self)", {"C06": ["C06.walk"]})
twin("t-ty-walk-ne-form", ["C06"], TY, "        if my_type.name == other_type.name:\n            return True\n\n        if my_type.parent is None:\n            return False\n\n        return PDDLType.is_sub_type_aux(my_type.parent, other_type)",
     "        if my_type.name != other_type.name:\n            if my_type.parent is None:\n                return False\n            return PDDLType.is_sub_type_aux(my_type.parent, other_type)\n        return True", "same walk with the test inverted")
PPF = LP + "preconditions_parser.py"
brk("c01-reintroduce-F15a", ["C01"], PPF, '                raise SyntaxError(f"Unknown precondition node: {precondition_node}")', '                self.logger.error(f"Unknown precondition node: {precondition_node}")\n                return None', {"C01": ["C01.nodrop"]})
brk("c01-not-arm-positive", ["C01"], PPF, "                        inner_node,\n                        action_signature,\n                        domain_constants,\n                        is_positive=False,", "                        inner_node,\n                        action_signature,\n                        domain_constants,\n                        is_positive=True,", {"C01": ["C01.polarity"]})
brk("c01-not-arm-outer-node", ["C01"], PPF, "                        inner_node,\n                        action_signature,\n                        domain_constants,\n                        is_positive=False,", "                        precondition_node,\n                        action_signature,\n                        domain_constants,\n                        is_positive=False,", {"C01": ["C01.polarity"]})
brk("c01-inequality-into-equality", ["C01"], PPF, "                    precondition_root.inequality_preconditions.add(\n                        (inner_node[1], inner_node[2])", "                    precondition_root.equality_preconditions.add(\n                        (inner_node[1], inner_node[2])", {"C01": ["C01.polarity"]})
brk("c01-comparison-arm-dropped", ["C01"], PPF, "                precondition_root.add_condition(numeric_precondition)\n                continue\n\n            if precondition_node[0] == FORALL_OPERATOR:", "                continue\n\n            if precondition_node[0] == FORALL_OPERATOR:", {"C01": ["C01.nodrop"]})
brk("c01-forall-operator-lost", ["C01"], PPF, "                    binary_operator=quantified_conditions[0],\n", "", {"C01": ["C01.headstrip"]})
EPF = LP + "effects_parser.py"
brk("c01-reintroduce-F15b", ["C01"], EPF, '\n            raise SyntaxError(f"Unknown effect node: {effect_node}")\n', "\n", {"C01": ["C01.nodrop"]})
brk("c01-effect-not-arm-positive", ["C01"], EPF, "                        effect_node[1],\n                        new_action.signature,\n                        domain_constants,\n                        is_positive=False,", "                        effect_node[1],\n                        new_action.signature,\n                        domain_constants,\n                        is_positive=True,", {"C01": ["C01.polarity"]})
brk("c01-effects-head-unchecked", ["C01"], EPF, '        if effects_ast[0] != "and":\n            raise SyntaxError(\n                f"Only accepting conjunctive effects! Action - {new_action.name} does not conform!"\n            )\n', "", {"C01": ["C01.headstrip"]})
PU = LP + "parsing_utils.py"
brk("c01-trailing-params-dropped", ["C01"], PU, "    if len(grouped_params) > 0:\n        for param in grouped_params:\n            signature[param] = ObjectType\n", "", {"C01": ["C01.leftover"]})
brk("c01-signature-sorted", ["C01"], PU, "        for parameter_name in untyped_predicate[1:]\n", "        for parameter_name in sorted(untyped_predicate[1:])\n", {"C01": ["C01.order"]})
PRP = LP + "problem_parser.py"
brk("c05-reintroduce-F11b", ["C05"], PRP, "        problem_objects.update(\n            {\n                name: PDDLObject(name=name, type=self.domain.types[\"object\"])\n                for name in same_type_objects\n            }\n        )\n", "", {"C05": ["C05.leftover"]})
brk("c05-arity-check-removed", ["C05"], PRP, "        if len(predicate_signature_items) != len(lifted_predicate.signature):\n            raise ValueError(\n                f\"Received illegal grounded predicate with mismatching signature - {grounded_predicate_ast}\"\n            )\n\n        self._validate_object_types", "        self._validate_object_types", {"C05": ["C05.validators"]})
brk("c05-type-check-removed", ["C05"], PRP, "        self._validate_object_types(lifted_predicate, predicate_signature_items)\n", "", {"C05": ["C05.validators"]})
brk("c05-type-check-first-arg-only", ["C05"], PRP, "        for index, grounded_object_type in enumerate(objects_types):\n            assert grounded_object_type.is_sub_type(lifted_predicate_types[index])", "        assert objects_types[0].is_sub_type(lifted_predicate_types[0]) if objects_types else True", {"C05": ["C05.validators"]})
brk("c05-subtype-reversed", ["C05", "C06"], PRP, "            assert grounded_object_type.is_sub_type(lifted_predicate_types[index])", "            assert lifted_predicate_types[index].is_sub_type(grounded_object_type)", {"C05": ["C05.direction"], "C06": ["C06.direction"]})
brk("c05-function-name-unchecked", ["C05"], PRP, "        assert function_name in self.domain.functions\n        lifted_function = self.domain.functions[function_name]", "        lifted_function = self.domain.functions.get(function_name) or next(iter(self.domain.functions.values()))", {"C05": ["C05.validators"]})
brk("c05-domain-name-unchecked", ["C05"], PRP, "        if domain_name != self.domain.name:\n            raise ValueError(", "        if domain_name is None:\n            raise ValueError(", {"C05": ["C05.domainname"]})
brk("c05-unknown-component-ignored", ["C05"], PRP, '        raise ValueError(f"Received illegal state component - {expression}")\n\n    def parse_initial_state', '        self.logger.debug(f"Received illegal state component - {expression}")\n\n    def parse_initial_state', {"C05": ["C05.nodrop"]})
brk("c05-goal-literal-unvalidated", ["C05"], PRP, "                grounded_predicate = self.parse_grounded_predicate(\n                    expression, self.domain.predicates[expression[0]]\n                )\n                self.problem.goal_state_predicates.append(grounded_predicate)", "                self.problem.goal_state_predicates.append(expression)", {"C05": ["C05.goal"]})
brk("c05-value-from-wrong-item", ["C05"], PRP, "            assigned_value = float(expression[2])\n            numeric_fluent = self.parse_grounded_numeric_fluent(function_data)", "            assigned_value = float(expression[-1][-1]) if isinstance(expression[-1], list) else 0.0\n            numeric_fluent = self.parse_grounded_numeric_fluent(function_data)", {"C05": ["C05.value"]})
brk("c05-objects-section-not-stored", ["C05"], PRP, "                self.problem.objects = self.parse_objects(macro_expression[1:])", "                self.parse_objects(macro_expression[1:])", {"C05": ["C05.sections"]})
TPF = LP + "trajectory_parser.py"
brk("c10-reintroduce-F13", ["C10"], TPF, "            return PDDLFunction(\n                name=function_name,\n                signature=fluent_signature,\n                repeating_variables=repeating_items,\n            )\n\n        possible_objects", "            return PDDLFunction(name=function_name, signature=fluent_signature)\n\n        possible_objects", {"C10": ["C10.siblings"]})
brk("c10-prestate-not-threaded", ["C10"], TPF, "            previous_state = next_state.copy()\n", "", {"C10": ["C10.thread"]})
brk("c10-prestate-aliases-post", ["C10"], TPF, "            previous_state = next_state.copy()\n", "            previous_state = next_state\n", {"C10": ["C10.thread"]})
brk("c10-missing-state-tolerated", ["C10"], TPF, '            if macro_expression[0] != ":state":\n                raise SyntaxError("Encountered a trajectory without a next state!")\n', "", {"C10": ["C10.thread"]})
brk("c10-unknown-component-ignored", ["C10"], TPF, '            raise ValueError(f"Received illegal state component - {expression}")\n\n        return State', '            self.logger.debug(f"Received illegal state component - {expression}")\n\n        return State', {"C10": ["C10.nodrop"]})
brk("c10-keyword-renamed-in-reader", ["C10"], TPF, '            if macro_expression[0] == "operator:":', '            if macro_expression[0] == "action:":', {"C10": ["C10.keywords"]})
TKF = LP + "pddl_tokenizer.py"
brk("c11-reintroduce-F7", ["C11"], TKF, 'pddl_str.replace("\\t", " ")', 'pddl_str.replace("\\t", "")', {"C11": ["C11.pipeline"]})
brk("c11-no-lower", ["C11"], TKF, "no_comments_line.lower().replace", "no_comments_line.replace", {"C11": ["C11.pipeline"]})
brk("c11-close-paren-unpadded", ["C11"], TKF, '.replace(")", " ) ")', '.replace(")", ") ")', {"C11": ["C11.pipeline"]})
brk("c11-comment-regex-greedy-wrong", ["C11"], TKF, 're.sub(r";.*", "", line)', 're.sub(r";\\w*", "", line)', {"C11": ["C11.pipeline"]})
brk("c11-comments-not-removed", ["C11"], TKF, '            no_comments_line = re.sub(r";.*", "", line)\n', "            no_comments_line = line\n", {"C11": ["C11.pipeline"]})
brk("c11-split-on-space-only", ["C11"], TKF, '.replace(")", " ) ").split()', '.replace(")", " ) ").split(" ")', {"C11": ["C11.pipeline"]})
brk("c11-stray-close-accepted", ["C11"], TKF, '        if token == ")":\n            raise SyntaxError("Unexpected ) while parsing the expressions")\n', "", {"C11": ["C11.reader"]})
brk("c11-empty-input-accepted", ["C11"], TKF, '        if len(tokens) == 0:\n            raise SyntaxError("Unexpected EOF")\n', "        if len(tokens) == 0:\n            return []\n", {"C11": ["C11.reader"]})
brk("c11-atom-stripped", ["C11"], TKF, "        return token\n", '        return token.strip("?")\n', {"C11": ["C11.reader"]})
twin("t-tk-comment-partition", ["C11"], TKF, '            no_comments_line = re.sub(r";.*", "", line)\n', '            no_comments_line = line.partition(";")[0]\n', "comment removal through str.partition")

# ------------------------------------------------------------------------------------------------ exporters (C04, C08, C09, C10, C19)
TE = EX + "numeric_trajectory_exporter.py"
brk("c04-state-not-threaded", ["C04"], TE, "            previous_state = triplet.next_state\n", "", {"C04": ["C04.thread"]})
brk("c04-state-stuck-on-prev", ["C04"], TE, "            previous_state = triplet.next_state\n", "            previous_state = triplet.previous_state\n", {"C04": ["C04.thread"]})
brk("c04-plan-sorted", ["C04"], TE, "        for grounded_action_call in plan_actions:", "        for grounded_action_call in sorted(plan_actions):", {"C04": ["C04.thread"]})
brk("c04-initial-state-no-fluents", ["C04"], TE, "            fluents=initial_state_numeric_fluents,\n            is_init=True,", "            fluents={},\n            is_init=True,", {"C04": ["C04.thread"]})
brk("c04-triplet-skipped-on-error", ["C04"], TE, "            triplets.append(triplet)\n            previous_state = triplet.next_state", "            if triplet.next_state != previous_state:\n                triplets.append(triplet)\n            previous_state = triplet.next_state", {"C04": ["C04.thread"]})
brk("c04-except-removed", ["C04"], TE, "        except ValueError:", "        except KeyError:", {"C04": ["C04.except"]})
brk("c04-handler-empty-state", ["C04"], TE, "                predicates=previous_state.state_predicates,\n                fluents=previous_state.state_fluents,\n                is_init=False,", "                predicates={},\n                fluents=previous_state.state_fluents,\n                is_init=False,", {"C04": ["C04.except"]})
brk("c04-always-allow", ["C04"], TE, "                previous_state, allow_inapplicable_actions=self.allow_invalid_actions", "                previous_state, allow_inapplicable_actions=True", {"C04": ["C04.flag"]})
brk("c04-allow-default-true", ["C04"], TE, "    def __init__(self, domain: Domain, allow_invalid_actions: bool = False):", "    def __init__(self, domain: Domain, allow_invalid_actions: bool = True):", {"C04": ["C04.flag"]})
brk("c04-call-not-lowered", ["C04"], TE, "    action_data = action_call.lower().replace", "    action_data = action_call.replace", {"C04": ["C04.call"]})
brk("c04-triplet-prev-is-next", ["C04"], TE, "            previous_state=previous_state, op=operator, next_state=next_state\n", "            previous_state=next_state, op=operator, next_state=next_state\n", {"C04": ["C04.except"]})
brk("c10-export-keyword", ["C10"], TE, 'f"(operator: {str(triplet.operator)})\\n"', 'f"(action: {str(triplet.operator)})\\n"', {"C10": ["C10.keywords", "C10.export"]})
brk("c10-export-unbalanced", ["C10"], TE, '        serialized_trajectory[-1] = f"{serialized_trajectory[-1]})"\n', "", None)
MUTANTS.pop()
DE = EX + "domain_exporter.py"
brk("c08-constants-not-exported", ["C08"], DE, '            f"(:constants {self.write_constants(domain.constants)}\\n)\\n\\n"\n            if len(domain.constants) > 0\n            else ""', '            ""', {"C08": ["C08.fields"]})
brk("c08-precondition-not-exported", ["C08"], DE, '            f"\\t:precondition {action.preconditions.print(should_simplify=False)}"\n', '            f"\\t:precondition (and )"\n', {"C08": ["C08.fields"]})
brk("c08-parameters-sorted", ["C08"], DE, "                for name, parameter_type in action.signature.items()\n", "                for name, parameter_type in sorted(action.signature.items())\n", {"C08": ["C08.order"]})
brk("c08-unbalanced-action", ["C08"], DE, '            f"\\t:effect       {action.effects_to_pddl()}"\n            f")\\n"', '            f"\\t:effect       {action.effects_to_pddl()}"\n            f"\\n"', {"C08": ["C08.balance"]})
brk("c08-unknown-keyword", ["C08"], DE, '            f"\\t:parameters   ({action_params})\\n"', '            f"\\t:params   ({action_params})\\n"', {"C08": ["C08.keywords"]})
PRC = M + "pddl_precondition.py"
brk("c08-inequalities-not-printed", ["C08"], PRC, '        return f"({self.binary_operator} {combined_conditions}{equality_conditions}{inequality_conditions})"', '        return f"({self.binary_operator} {combined_conditions}{equality_conditions})"', {"C08": ["C08.fields"]})
brk("c08-nested-not-printed", ["C08"], PRC, "        compound_preconditions = (\n            discrete_preconditions + numeric_preconditions + compound_preconditions\n        )", "        compound_preconditions = (\n            discrete_preconditions + numeric_preconditions\n        )", {"C08": ["C08.operands"]})
brk("c08-operator-fixed-and", ["C08"], PRC, '        return f"({self.binary_operator} {combined_conditions}{equality_conditions}{inequality_conditions})"', '        return f"(and {combined_conditions}{equality_conditions}{inequality_conditions})"', {"C08": ["C08.fields"]})
brk("c18-pairs-one-component", ["C18"], PRC, "            new_inequality_conditions.add(\n                (old_to_new_param_names[param_1], old_to_new_param_names[param_2])", "            new_inequality_conditions.add(\n                (old_to_new_param_names[param_1], param_2)", None)
MUTANTS.pop()
brk("c18-inequalities-not-stored", ["C18"], PRC, "        self.inequality_preconditions = new_inequality_conditions\n", "", {"C18": ["C18.pairs"]})
AC = M + "pddl_action.py"
brk("c18-numeric-effects-not-renamed", ["C18"], AC, "        for effect in self.numeric_effects:\n            effect.change_signature(old_to_new_parameter_names)\n", "", {"C18": ["C18.fields"]})
brk("c08-numeric-effects-not-printed", ["C08"], AC, '                f"{numeric_effects})"\n            )', '                f")"\n            )', {"C08": ["C08.fields"]})
CE = M + "conditional_effect.py"
brk("c08-when-drops-numeric", ["C08"], CE, '            f"(and {discrete_effect}{numeric_effect}))"', '            f"(and {discrete_effect}))"', {"C08": ["C08.fields"]})
PE = EX + "problem_exporter.py"
brk("c09-fluents-not-exported", ["C09"], PE, '        joint_state_str = "\\n\\t".join([*predicates_str, *fluents_str])', '        joint_state_str = "\\n\\t".join([*predicates_str])', {"C09": ["C09.fields"]})
brk("c09-goal-fluents-not-exported", ["C09"], PE, '        joint_goal = "\\n\\t\\t".join([predicates_str, *goal_fluents])', '        joint_goal = "\\n\\t\\t".join([predicates_str])', {"C09": ["C09.fields"]})
brk("c09-domain-ref-is-problem-name", ["C09"], PE, "(:domain {problem.domain.name})", "(:domain {problem.name})", {"C09": ["C09.domainref", "C09.fields"]})
brk("c09-goal-keyword", ["C09"], PE, '        return f"(:goal\\n\\t(and\\n\\t{joint_goal}\\t\\t\\n)\\n)\\n"', '        return f"(:goals\\n\\t(and\\n\\t{joint_goal}\\t\\t\\n)\\n)\\n"', {"C09": ["C09.keywords"]})
OB = M + "pddl_object.py"
brk("c09-object-type-not-printed", ["C09"], OB, '        return f"{self.name} - {self.type.name}"', '        return f"{self.name}"', {"C09": ["C09.fields"]})
FF = EX + "ff_output_parser.py"
brk("c19-reintroduce-F20", ["C19"], FF, 'PLAN_COMPONENT_REGEX = r"\\d: ([\\w+ \\t?-]+)\\r?\\n"', 'PLAN_COMPONENT_REGEX = r"\\d: ([\\w+\\s?-]+)\\n"', {"C19": ["C19.regex"]})
brk("c19-negated-class", ["C19"], FF, 'PLAN_COMPONENT_REGEX = r"\\d: ([\\w+ \\t?-]+)\\r?\\n"', 'PLAN_COMPONENT_REGEX = r"\\d: ([^:]+)\\r?\\n"', {"C19": ["C19.regex"]})
brk("c19-no-lower", ["C19"], FF, 'plan_seq.append(f"({action_sequence.lower().strip()})\\n")', 'plan_seq.append(f"({action_sequence.strip()})\\n")', {"C19": ["C19.lower"]})
brk("c19-ok-without-marker", ["C19"], FF, '        return "timeout", []', '        return "ok", self._parse_plan_content(file_content)', {"C19": ["C19.status"]})
brk("c19-no-solution-with-actions", ["C19"], FF, '                return "no-solution", []', '                return "no-solution", self._parse_plan_content(file_content)', {"C19": ["C19.status"]})
EN = EX + "enhsp_output_parser.py"
brk("c19-enhsp-skips-lines", ["C19"], EN, "                plan_seq.append(line.lower())", "                if line.strip():\n                    plan_seq.append(line.lower())", {"C19": ["C19.enhsp"]})
brk("c19-enhsp-no-lower", ["C19"], EN, "                plan_seq.append(line.lower())", "                plan_seq.append(line)", {"C19": ["C19.enhsp"]})

# ------------------------------------------------------------------------------------------------ multi agent (C15, C16, C17)
CM = MA + "common.py"
brk("c16-applicability-on-accumulated", ["C16"], CM, "        if operator.is_applicable(current_state) or allow_inapplicable_actions:", "        if operator.is_applicable(accumulative_changed_state) or allow_inapplicable_actions:", {"C16": ["C16.guard"]})
brk("c16-no-copy", ["C16"], CM, "    accumulative_changed_state = current_state.copy()", "    accumulative_changed_state = current_state", {"C16": ["C16.guard"]})
brk("c16-refusal-ignores-flag", ["C16"], CM, "        if operator.is_applicable(current_state) or allow_inapplicable_actions:", "        if operator.is_applicable(current_state):", {"C16": ["C16.guard"]})
brk("c16-never-refuses", ["C16"], CM, '        else:\n            raise ValueError("Cannot apply an action when it is not applicable!")\n', "", {"C16": ["C16.guard"]})
brk("c16-nop-not-skipped", ["C16"], CM, "        if action_call.name == NOP_ACTION:\n            continue\n", "", {"C16": ["C16.guard"]})
brk("c16-shortcut-drops-flag", ["C16"], CM, "            previous_state=current_state,\n            allow_inapplicable_actions=allow_inapplicable_actions,\n        )", "            previous_state=current_state,\n        )", {"C16": ["C16.guard"]})
brk("c16-reintroduce-F22", ["C16"], CM, "            grounded_action_call=action_call.parameters,\n            problem_objects=problem_objects,\n        )\n        if operator", "            grounded_action_call=action_call.parameters,\n        )\n        if operator", {"C16": ["C16.objects"]})
brk("c16-applies-to-original-each-time", ["C16"], CM, "            accumulative_changed_state = operator.apply(\n                accumulative_changed_state, allow_inapplicable_actions=True", "            accumulative_changed_state = operator.apply(\n                current_state, allow_inapplicable_actions=True", {"C16": ["C16.guard"]})
MT = MA + "multi_agent_trajectory_exporter.py"
brk("c16-ma-state-not-threaded", ["C16"], MT, "            triplets.append(triplet)\n            previous_state = triplet.next_state", "            triplets.append(triplet)", {"C16": ["C16.thread"]})
brk("c16-ma-export-layout", ["C16"], MT, '            serialized_trajectory.append(f"(operators: {operators})\\n")\n            serialized_trajectory.append(triplet.next_state.serialize())', '            serialized_trajectory.append(triplet.next_state.serialize())\n            serialized_trajectory.append(f"(operators: {operators})\\n")', {"C16": ["C16.export"]})
DC = MA + "multi_agent_domain_converter.py"
brk("c17-functions-not-merged", ["C17"], DC, "            combined_domain.functions.update(agent_domain.functions)\n", "", {"C17": ["C17.fields"]})
brk("c17-merge-crossed", ["C17"], DC, "            combined_domain.constants.update(agent_domain.constants)", "            combined_domain.constants.update(agent_domain.predicates)", {"C17": ["C17.fields"]})
brk("c17-dummy-unconditional", ["C17"], DC, "        if add_dummy_actions:\n            combined_domain.predicates", "        if True:\n            combined_domain.predicates", {"C17": ["C17.dummy"]})
DM = M + "pddl_domain.py"
brk("c07-reintroduce-F2", ["C07", "C17"], DM, "        self.types = DEFAULT_TYPES.copy()", "        self.types = DEFAULT_TYPES", {"C07": ["C07.global"], "C17": ["C17.global"]})
PC = MA + "multi_agent_problem_converter.py"
brk("c17-dedup-inverted", ["C17"], PC, "                        in combined_state_predicates\n                    ):\n                        continue", "                        not in combined_state_predicates\n                    ):\n                        continue", {"C17": ["C17.dedup"]})
brk("c17-objects-not-merged", ["C17"], PC, "            combined_problem.objects.update(agent_problem.objects)\n", "", {"C17": ["C17.fields"]})
brk("c17-goals-not-deduped", ["C17"], PC, "            combined_problem.goal_state_predicates = list(\n                set(combined_problem.goal_state_predicates)\n            )\n", "", {"C17": ["C17.dedup"]})
SP = MA + "single_agent_plan_converter.py"
brk("c15-applicability-unchecked", ["C15"], SP, "        if not next_action_op.is_applicable(current_state):\n            return False\n", "", {"C15": ["C15.guard"]})
brk("c15-slot-check-removed", ["C15"], SP, '        if combined_actions[next_agent_action_index].name != NOP_ACTION:\n            self.logger.debug(\n                "The agent already executes an action in the joint action"\n            )\n            return False\n', "", {"C15": ["C15.guard"]})
brk("c15-interference-pair-removed", ["C15"], SP, "            len(accumulated_add_effects.intersection(next_action_del_effects)) > 0\n            or len(accumulated_delete_effects", "            len(accumulated_delete_effects", {"C15": ["C15.guard"]})
brk("c15-interference-not-negated", ["C15"], SP, "        return not (\n            len(accumulated_add_effects", "        return (\n            len(accumulated_add_effects", None)
MUTANTS.pop()
brk("c15-state-not-advanced", ["C15"], SP, "            current_state = apply_actions(\n                self.ma_domain,\n                current_state,", "            _unused = apply_actions(\n                self.ma_domain,\n                current_state,", {"C15": ["C15.thread"]})
brk("c15-wrong-slot", ["C15"], SP, "            joint_action[agent_names.index(agent)] = action\n", "            joint_action[0] = action\n", {"C15": ["C15.once"]})
brk("c15-plan-lowercase-lost", ["C15"], SP, "            action_components = action_sequence.lower().split()", "            action_components = action_sequence.split()", {"C15": ["C15.extract"]})

# ------------------------------------------------------------------------------------------------ grounding utils (C20)
GU = M + "grounding_utils.py"
brk("c20-constants-through-map", ["C20"], GU, "        if predicate_params[index] in domain.constants:\n            predicate_object_mapping[parameter_name] = predicate_params[index]\n\n        else:", "        if False:\n            predicate_object_mapping[parameter_name] = predicate_params[index]\n\n        else:", {"C20": ["C20.positional"]})
brk("c20-polarity-lost", ["C20"], GU, "        is_positive=predicate.is_positive,\n", "        is_positive=True,\n", {"C20": ["C20.positional"]})
brk("c20-const-type-from-action", ["C20"], GU, "            predicate_signature[domain_def_parameter] = domain.constants[\n                lifted_predicate_param_name\n            ].type", "            predicate_signature[domain_def_parameter] = action.signature.get(\n                lifted_predicate_param_name\n            )", {"C20": ["C20.constants"]})
brk("c20-wrong-position", ["C20"], GU, "            predicate_object_mapping[parameter_name] = parameters_map[\n                predicate_params[index]\n            ]", "            predicate_object_mapping[parameter_name] = parameters_map[\n                predicate_params[0]\n            ]", {"C20": ["C20.positional"]})

# ------------------------------------------------------------------------------------------------ simplifier (C13)
NS = M + "numeric_symbolic_operations.py"
brk("c13-reintroduce-F19", ["C13"], NS, 'else f"{int(round(float(expression), decimal_digits))}"', 'else f"{int(expression)}"', {"C13": ["C13.round"]})
brk("c13-reintroduce-F9", ["C13", "C12"], NS, 'DEFAULT_DECIMAL_DIGITS = int(os.environ.get("NUMERIC_PRECISION", 4))', 'DEFAULT_DECIMAL_DIGITS = os.environ.get("NUMERIC_PRECISION", 4)', {"C13": ["C13.env"], "C12": ["C12.env"]})
brk("c13-mul-as-plus", ["C13"], NS, '    Mul: "*",', '    Mul: "x",', {"C13": ["C13.vocab"]})
brk("c13-sides-swapped", ["C13"], NS, '    return f"({inequality_operator} {pddl_left_side} {pddl_right_side})"', '    return f"({inequality_operator} {pddl_right_side} {pddl_left_side})"', {"C13": ["C13.sides"]})
brk("c13-mangle-deletes-underscore", ["C13"], NS, 're.sub(r"[\\(\\-\\)\\s\\?]", "", var)', 're.sub(r"[\\(\\)\\?_]", "", var)', {"C13": ["C13.mangle"]})

# ------------------------------------------------------------------------------------------------ typed lists (C01 / C05 / C06)
brk("c01-signature-group-not-reset", ["C01"], PU, "                signature[grouped_param] = domain_types[parameter_type]\n\n            grouped_params = []\n", "                signature[grouped_param] = domain_types[parameter_type]\n\n", {"C01": ["C01.typedlist"]})
brk("c01-signature-unknown-type-defaults", ["C01"], PU, "                signature[grouped_param] = domain_types[parameter_type]", "                signature[grouped_param] = domain_types.get(parameter_type, ObjectType)", {"C01": ["C01.typedlist"]})
brk("c01-constants-group-not-reset", ["C01"], DP, "                type_marker_reached = False\n                same_type_constants = []\n                continue", "                type_marker_reached = False\n                continue", {"C01": ["C01.typedlist"]})
brk("c05-objects-group-not-reset", ["C05"], PRP, "            same_type_objects = []\n            iterator += 2", "            iterator += 2", {"C05": ["C05.typedlist"]})
brk("c05-objects-unknown-type-object", ["C05"], PRP, "                    name: PDDLObject(name=name, type=self.domain.types[objects_type])\n", "                    name: PDDLObject(name=name, type=self.domain.types.get(objects_type, self.domain.types[\"object\"]))\n", {"C05": ["C05.typedlist"]})
brk("c06-types-group-not-reset", ["C06"], DP, "\n            same_types_objects = []\n            index += 2", "\n            index += 2", {"C06": ["C06.typedlist"]})
twin("t-pu-signature-clear", ["C01"], PU, "            grouped_params = []\n\n        else:", "            grouped_params = list()\n\n        else:", "reset through list()")

# ------------------------------------------------------------------------------------------------ frame (C03)
brk("c03-delete-by-name", ["C03"], GE, "                if (\n                    state_predicate.untyped_representation\n                    == positive_predicate.untyped_representation\n                ):", "                if state_predicate.name == positive_predicate.name:", {"C03": ["C03.frame"]}, "a delete effect removes some fact of the same predicate")
brk("c03-delete-unguarded", ["C03"], GE, "                if (\n                    state_predicate.untyped_representation\n                    == positive_predicate.untyped_representation\n                ):", "                if True:", {"C03": ["C03.frame"]})
brk("c03-add-under-wrong-key", ["C03"], GE, "            lifted_predicate_str = predicate.lifted_untyped_representation\n", "            lifted_predicate_str = predicate.untyped_representation\n", {"C03": ["C03.frame"]})
