#!/venv/bin/python
"""Self-test of the checkers: every mutant in mutants.py is applied to a scratch copy of the CURRENT /repo tree;
the named check must report a finding of the named rule that is not present on the unmodified tree ("fires"),
and every refactor twin must leave the set of findings unchanged ("silent").

usage: run.py [--only C03] [--jobs 16] [--root /repo] [--list]
Scratch copies live under a mkdtemp directory outside /repo and /verif and are removed by the process that made them.
"""
import argparse
import json
import os
import py_compile
import shutil
import subprocess
import sys
import tempfile
from concurrent.futures import ProcessPoolExecutor

HERE = os.path.dirname(os.path.abspath(__file__))
VERIF = os.path.dirname(HERE)
sys.path.insert(0, HERE)
PY = "/venv/bin/python"


def run_check(prop, root):
    p = subprocess.run([PY, os.path.join(VERIF, "check"), prop, "--root", root, "--no-evidence", "--json"],
                       capture_output=True, text=True)
    finds = []
    for line in p.stdout.splitlines():
        if line.startswith("FINDING-JSON "):
            d = json.loads(line[len("FINDING-JSON "):])
            finds.append((d["rule"], d["module"], d["function"], d["role"]))
    return p.returncode, finds, p.stdout[-2000:]


def apply_mutant(m, root):
    tmp = tempfile.mkdtemp(prefix="verif_mut_")
    try:
        shutil.copytree(os.path.join(root, "pddl_plus_parser"), os.path.join(tmp, "pddl_plus_parser"))
        edits = m["edits"] if "edits" in m else [(m["file"], m["old"], m["new"])]
        for rel, old, new in edits:
            path = os.path.join(tmp, rel)
            src = open(path).read()
            if src.count(old) != 1:
                return tmp, f"SKIP anchor text occurs {src.count(old)} times in {rel}"
            open(path, "w").write(src.replace(old, new))
            try:
                compile(open(path).read(), path, "exec")
            except SyntaxError as e:
                return tmp, f"BROKEN mutant does not compile: {e}"
        return tmp, None
    except Exception as e:  # noqa
        return tmp, f"BROKEN {e}"


def one(args):
    m, root, baseline = args
    tmp, err = apply_mutant(m, root)
    try:
        if err:
            return m["id"], err.split()[0], err
        out = []
        status = "ok"
        for prop in m["props"]:
            rc, finds, tail = run_check(prop, tmp)
            new = [f for f in finds if f not in baseline.get(prop, [])]
            gone = [f for f in baseline.get(prop, []) if f not in finds]
            if m.get("kind", "break") == "break":
                want = m.get("rules", {}).get(prop)
                hit = [f for f in new if (want is None or f[0] in want)]
                if rc == 2:
                    status = "ANALYSIS-ERROR"
                    out.append(f"{prop}: exit 2: {tail[-300:]}")
                elif not hit:
                    status = "MISSED"
                    out.append(f"{prop}: no new finding of {want}; new={new}")
                else:
                    out.append(f"{prop}: {hit[0][0]} <{hit[0][3]}>")
            else:  # twin: must stay silent
                if rc == 2:
                    status = "ANALYSIS-ERROR"
                    out.append(f"{prop}: exit 2: {tail[-300:]}")
                elif new or gone:
                    status = "FALSE-ALARM" if new else "CHANGED"
                    out.append(f"{prop}: new={new} gone={gone}")
                else:
                    out.append(f"{prop}: silent")
        return m["id"], status, "; ".join(out)
    finally:
        shutil.rmtree(tmp, ignore_errors=True)


def main():
    ap = argparse.ArgumentParser()
    ap.add_argument("--only", default=None)
    ap.add_argument("--jobs", type=int, default=16)
    ap.add_argument("--root", default="/repo")
    ap.add_argument("--list", action="store_true")
    ap.add_argument("--json-out", default=None)
    args = ap.parse_args()
    from mutants import MUTANTS
    ms = [m for m in MUTANTS if not args.only or args.only.upper() in m["props"] or args.only == m["id"]]
    if args.list:
        for m in ms:
            print(m["id"], m.get("kind", "break"), m["props"], m.get("why", ""))
        return 0
    props = sorted({p for m in ms for p in m["props"]})
    baseline = {}
    with ProcessPoolExecutor(args.jobs) as ex:
        for prop, (rc, finds, tail) in zip(props, ex.map(run_check, props, [args.root] * len(props))):
            if rc == 2:
                print(f"baseline {prop}: ANALYSIS-ERROR\n{tail}")
                return 2
            baseline[prop] = finds
        results = list(ex.map(one, [(m, args.root, baseline) for m in ms]))
    bad = 0
    for mid, status, detail in results:
        flag = "" if status == "ok" else "   <<<<<<"
        print(f"{status:15s} {mid:40s} {detail[:260]}{flag}")
        if status not in ("ok", "SKIP"):
            bad += 1
    n_ok = sum(1 for r in results if r[1] == "ok")
    print(f"== self-test: {n_ok}/{len(results)} as expected, {bad} unexpected, {sum(1 for r in results if r[1] == 'SKIP')} skipped")
    if args.json_out:
        json.dump([dict(id=a, status=b, detail=c) for a, b, c in results], open(args.json_out, "w"), indent=1)
    return 1 if bad else 0


if __name__ == "__main__":
    sys.exit(main())
